// C14 harness: state ids follow declaration order and dispatch reaches exactly that state, for a machine
// generated with N states (STATE_LIST = St<0>,...,St<N-1>), with and without a root head.
// stateId<St<i>>() == i for every i and the invalid id of the head are constant expressions, asserted as 1417/1418.  Solver part: symbolic k, k2 < N.
#define FFSM2_DISABLE_TYPEINDEX
#include "vrt.h"
#include <ffsm2/machine.hpp>
#ifndef NSTATES
#define NSTATES 3
#define STATE_LIST St<0>, St<1>, St<2>
#endif
#ifndef HEAD
#define HEAD 0
#endif
#ifndef STAGES
#define STAGES 3     // 1: activation, immediateChangeTo(k), update(); 2: + react/query; 3: + changeTo(k2) and update()
#endif
#ifndef PAYLOAD
#define PAYLOAD 0
#endif
struct Pay { int v; };
#if PAYLOAD
using M = ffsm2::MachineT<ffsm2::Config::PayloadT<Pay>>;
#else
using M = ffsm2::Machine;
#endif
template <int I> struct St; struct Rt;
#if HEAD
using FSM = M::Root<Rt, STATE_LIST>;
#else
using FSM = M::PeerRoot<STATE_LIST>;
#endif
typedef FSM::Instance Inst;
enum { K_ENTRYGUARD = 1, K_ENTER = 2, K_REENTER = 4, K_EXITGUARD = 8, K_EXIT = 16, K_PREUPDATE = 32, K_UPDATE = 64, K_POSTUPDATE = 128,
       K_PREREACT = 256, K_REACT = 512, K_POSTREACT = 1024, K_QUERY = 2048 };
static int allow_a = -1, allow_b = -1, allow_c = -1;      // the only state ids whose callbacks may run in the current stage
static unsigned seen_a, seen_b, seen_c;     // callback kinds delivered to them
static int route_from = -1, route_to = -1, veto_at = -1;   // scripted guard behaviour of the routed stage
static const void* self_a; static const void* self_b;
static unsigned root_seen;
__attribute__((noinline)) static void cb(unsigned kind, int I, const void* self) {
  vrec(kind, I);
  vassert(I == allow_a || I == allow_b || I == allow_c, 1401);  // only the addressed state's callbacks run
  if (I == allow_a) { seen_a |= kind; self_a = self; }
  else if (I == allow_b) { seen_b |= kind; self_b = self; }
  else if (I == allow_c) { seen_c |= kind; }
}
template <int I> struct St : FSM::State {
  void entryGuard(GuardControl& c) { cb(K_ENTRYGUARD, I, this);
    if (I == route_from) c.changeTo(static_cast<ffsm2::StateID>(route_to));
    if (I == veto_at) c.cancelPendingTransition(); }
  void enter(PlanControl&) { cb(K_ENTER, I, this); }
  void reenter(PlanControl&) { cb(K_REENTER, I, this); }
  void exitGuard(GuardControl&) { cb(K_EXITGUARD, I, this); }
  void exit(PlanControl&) { cb(K_EXIT, I, this); }
  void preUpdate(FullControl&) { cb(K_PREUPDATE, I, this); }
  void update(FullControl&) { cb(K_UPDATE, I, this); }
  void postUpdate(FullControl&) { cb(K_POSTUPDATE, I, this); }
  void preReact(const int&, FullControl&) { cb(K_PREREACT, I, this); }
  void react(const int&, FullControl&) { cb(K_REACT, I, this); }
  void postReact(const int&, FullControl&) { cb(K_POSTREACT, I, this); }
  void query(int&, ConstControl&) const { cb(K_QUERY, I, this); }
};
struct Rt : FSM::State {
  void enter(PlanControl& c) { root_seen |= K_ENTER; vassert(c.stateId() == ffsm2::INVALID_STATE_ID, 1410); }
  void update(FullControl& c) { root_seen |= K_UPDATE; vassert(c.stateId() == ffsm2::INVALID_STATE_ID, 1410); }
  void exit(PlanControl&) { root_seen |= K_EXIT; }
};
// ids follow declaration order, for every i (constant expressions; asserted in the harness so that a wrong id is
// reported with the other violations instead of stopping the build)
template <int I> struct IdCheck { static bool ok() { return FSM::stateId<St<I>>() == I && IdCheck<I + 1>::ok(); } };
template <> struct IdCheck<NSTATES> { static bool ok() { return true; } };
static bool head_id_ok() {
#if HEAD
  return FSM::stateId<Rt>() == ffsm2::INVALID_STATE_ID;
#else
  return true;
#endif
}
// access<T>() for a run-time index
template <int I> struct Acc { static const void* of(Inst& m, int k) { return k == I ? static_cast<const void*>(&m.access<St<I>>()) : Acc<I + 1>::of(m, k); } };
template <> struct Acc<NSTATES> { static const void* of(Inst&, int) { return 0; } };

extern "C" int harness(void) {
  vassert(IdCheck<0>::ok(), 1417);                              // stateId<T>() is the zero-based position of T
  vassert(head_id_ok(), 1418);                                  // the root head has the invalid id
  allow_a = 0; seen_a = 0; self_a = 0;
  Inst m;
  vassert(m.activeStateId() == 0, 1400);                        // the first declared state is the initial state
  vassert(seen_a == (K_ENTRYGUARD | K_ENTER), 1402);
  vassert(self_a == Acc<0>::of(m, 0), 1403);                    // access<T>() is the very object whose callbacks run
  if (HEAD) vassert(root_seen == K_ENTER, 1411);
  int k = nondet_below(NSTATES);
  allow_a = 0; allow_b = k; seen_a = seen_b = 0; self_a = self_b = 0;
  m.immediateChangeTo(static_cast<ffsm2::StateID>(k));
  vassert(m.activeStateId() == k, 1404);                        // requesting id k activates the k-th declared state
  for (int j = 0; j < 1; ++j) vassert(m.isActive(static_cast<ffsm2::StateID>(k)), 1404);
  if (k == 0) vassert(seen_a == (K_EXITGUARD | K_ENTRYGUARD | K_REENTER), 1405);
  else { vassert(seen_a == (K_EXITGUARD | K_EXIT), 1405); vassert(seen_b == (K_ENTRYGUARD | K_ENTER), 1405); vassert(self_b == Acc<0>::of(m, k), 1403); }
  allow_a = k; allow_b = k; seen_a = 0; self_a = 0;
  m.update();
  vassert(seen_a == (K_PREUPDATE | K_UPDATE | K_POSTUPDATE), 1406);
  vassert(self_a == Acc<0>::of(m, k), 1403);
#if STAGES >= 2
  seen_a = 0; int ev = 7; m.react(ev);
  vassert(seen_a == (K_PREREACT | K_REACT | K_POSTREACT), 1407);
  seen_a = 0; { const Inst& cm = m; cm.query(ev); }
  vassert(seen_a == K_QUERY, 1408);
#endif
#if STAGES >= 3
  int k2 = nondet_below(NSTATES);
  allow_a = k; allow_b = k2; seen_a = seen_b = 0;
  m.changeTo(static_cast<ffsm2::StateID>(k2));
  vassert(m.activeStateId() == k, 1409);
  m.update();
  vassert(m.activeStateId() == k2, 1404);
  if (k2 == k) vassert(seen_a == (K_PREUPDATE | K_UPDATE | K_POSTUPDATE | K_EXITGUARD | K_ENTRYGUARD | K_REENTER), 1405);
  else { vassert(seen_a == (K_PREUPDATE | K_UPDATE | K_POSTUPDATE | K_EXITGUARD | K_EXIT), 1405); vassert(seen_b == (K_ENTRYGUARD | K_ENTER), 1405); }
  // distinct states are distinct objects
  { int j = nondet_below(NSTATES); if (j != k2) vassert(Acc<0>::of(m, j) != Acc<0>::of(m, k2) || sizeof(St<0>) == 0, 1412); }
  allow_a = k2; allow_b = k2;
#if NSTATES >= 2
  // ids stay attached to their states through a substitution chain: the request to id ka passes ka's own guard, which
  // asks for kb on top without cancelling; kb's guard refuses -> the accepted request is the one to ka, and kb never runs
  { int ka = nondet_below(NSTATES), kb = nondet_below(NSTATES); vassume(ka != kb);
    const int cur = k2;
    allow_a = cur; allow_b = ka; allow_c = (kb == cur || kb == ka) ? -1 : kb; seen_a = seen_b = seen_c = 0;
    route_from = ka; route_to = kb; veto_at = kb;
    m.immediateChangeTo(static_cast<ffsm2::StateID>(ka));
    route_from = route_to = veto_at = -1;
    vassert(m.activeStateId() == ka, 1415);                     // requesting id ka activated state ka, not the state whose guard refused
    if (kb != cur) vassert((kb == ka ? seen_b : seen_c) == K_ENTRYGUARD || kb == ka, 1416);      // kb was consulted and nothing else of it ran
    if (ka != cur) vassert((seen_b & K_ENTER) && (seen_a & K_EXIT), 1416);
    k2 = ka; allow_c = -1; allow_a = k2; allow_b = k2; }
#endif
#ifdef FFSM2_ENABLE_PLANS
  // a request made on behalf of a plan task (payload-free and, where configured, payload-carrying) reaches id k3 as well
  { int k3 = nondet_below(NSTATES); unsigned char withp = nondet_u8() & 1; (void)withp;
    allow_a = k2; allow_b = k3; seen_a = seen_b = 0;
#if PAYLOAD
    if (withp) m.plan().changeWith(static_cast<ffsm2::StateID>(k2), static_cast<ffsm2::StateID>(k3), Pay{7}); else
#endif
    m.plan().change(static_cast<ffsm2::StateID>(k2), static_cast<ffsm2::StateID>(k3));
    m.succeed(static_cast<ffsm2::StateID>(k2));
    m.update();
    vassert(m.activeStateId() == k3, 1413);
    if (k3 == k2) vassert((seen_a & (K_ENTER | K_EXIT)) == 0 && (seen_a & K_REENTER), 1414);
    else { vassert((seen_a & K_EXIT) && !(seen_a & K_ENTER), 1414); vassert(seen_b == (K_ENTRYGUARD | K_ENTER), 1414); }
    allow_a = k3; allow_b = k3; }
#endif
#endif
  vwitness(9001);
  return 0;
}

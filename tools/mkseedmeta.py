#!/usr/bin/python3
"""Write seeded/<id>/meta.json from seedtest.json + NOTES.md and the table seeded/README.md."""
import os, json, re, glob
HERE = os.path.dirname(os.path.dirname(os.path.abspath(__file__)))
rows = []
for d in sorted(glob.glob(os.path.join(HERE, 'seeded', 'C*'))):
    st = os.path.join(d, 'seedtest.json')
    if not os.path.exists(st): continue
    s = json.load(open(st)); notes = open(os.path.join(d, 'NOTES.md')).read() if os.path.exists(os.path.join(d, 'NOTES.md')) else ''
    prop = os.path.basename(d)[:3]
    m = re.search(r'\*\*(?:What is needed[^*]*|Needed[^*]*|What it takes[^*]*)\*\*:?\s*(.*?)(?:\n\n|\n\*\*)', notes, re.S)
    needs = re.sub(r'\s+', ' ', m.group(1)).strip()[:700] if m else ''
    title = notes.split('\n')[0].lstrip('# ').strip()
    checks = {}
    for p, c in s.get('checks', {}).items():
        ids = sorted(set(re.findall(r'violated: (\S+)', ' '.join(c['lines']))))
        checks[p] = dict(exit_code=c['rc'], wall_s=c['wall_s'], reported=ids[:8])
    initial = {}
    si = os.path.join(d, 'seedtest.initial.json')
    if os.path.exists(si):
        for p, c in json.load(open(si)).get('checks', {}).items(): initial[p] = dict(exit_code=c['rc'], wall_s=c['wall_s'])
    meta = dict(property=prop, title=title, origin='written by an independent sub-agent that saw only the property text and a scratch worktree (nothing from /verif)',
                needs_to_manifest=needs, suite_passes_with_change=s.get('suite_passes_with_patch'), demo_fails_with_change=s.get('demo_with_patch_rc') not in (0, None),
                demo_passes_without_change=s.get('demo_without_patch_rc') == 0, header_kept_in_sync=s.get('patch_keeps_header_in_sync'),
                what_was_run='tools/seedtest.py: scratch worktree (apply, build+run unedited suite, demo with/without), then git -C /repo apply patch.diff; ./check %s --tier quick; git -C /repo checkout -- .' % prop,
                checks=checks, checks_before_strengthening=initial, detected=any(c['exit_code'] == 1 for c in checks.values()))
    json.dump(meta, open(os.path.join(d, 'meta.json'), 'w'), indent=1)
    rows.append((os.path.basename(d), title, meta['detected'], '; '.join('%s: %s' % (p, ', '.join(c['reported'][:3]) or 'rc=%d' % c['exit_code']) for p, c in checks.items())))
with open(os.path.join(HERE, 'seeded', 'README.md'), 'w') as f:
    f.write('# Seeded property-breaking changes\n\nEach directory holds `patch.diff` (never committed to /repo), the author\'s `demo.cpp` and `NOTES.md`, `seedtest.json` (raw run record) and `meta.json`.\n'
            'All changes compile, pass the unedited 21-case suite, and were written without sight of /verif.\n\n| seed | change | detected | reported by |\n|---|---|---|---|\n')
    for r in rows: f.write('| %s | %s | %s | %s |\n' % (r[0], r[1].replace('|', '/'), 'yes' if r[2] else 'NO', r[3].replace('|', '/')))
print('%d seeds, %d detected' % (len(rows), sum(1 for r in rows if r[2])))

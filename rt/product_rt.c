/* Product (relational) runtime: two translated modules A_ and B_ are driven by the SAME choice stream and their
 * traces are compared step by step (DESIGN.md 2.3 "product", 5 C16/C17/C19).  Choices and traces are kept per API
 * step in small arrays, so no array is indexed by a history-long, path-dependent counter. */
#include <stdint.h>
#ifndef PR_STEPS
#define PR_STEPS 8
#endif
#ifndef PR_NCH
#define PR_NCH 12
#endif
#ifndef PR_NTR
#define PR_NTR 28
#endif
void nondet_fill(uint8_t* p, uint64_t n);
void vassert(uint32_t c, uint32_t id);
void vassume(uint32_t c);
void vwitness(uint32_t id);
void A_scenario(void);
void B_scenario(void);
static uint8_t ch[PR_STEPS][PR_NCH];
static uint8_t tr[2][PR_STEPS][PR_NTR];
static uint8_t ti[2][PR_STEPS];
static int side, step, ci;
void pr_step(uint32_t s) { vassume(s < PR_STEPS); step = (int)s; ci = 0; }
uint8_t pr_draw(void) { vassume(ci < PR_NCH); return ch[step][ci++]; }
uint8_t pr_below(uint8_t n) { uint8_t v = pr_draw(); return n ? (uint8_t)(v % n) : 0; }
void pr_rec(uint32_t e) { vassume(ti[side][step] < PR_NTR); tr[side][step][ti[side][step]++] = (uint8_t)e; }
uint32_t pr_side(void) { return (uint32_t)side; }
#define PR_STR2(x) #x
#define PR_STR(x) PR_STR2(x)
#ifdef __CPROVER__
#define PR_ASSERT(c, id) __CPROVER_assert((c), "vassert:" PR_STR(id))
#ifdef VERIF_NOWITNESS
#define PR_WITNESS(id) do { } while (0)
#else
#define PR_WITNESS(id) __CPROVER_assert(0, "vwitness:" PR_STR(id))
#endif
#else
#define PR_ASSERT(c, id) vassert((c), (id))
#define PR_WITNESS(id) vwitness(id)
#endif
#ifndef PR_ID_LEN
#define PR_ID_LEN 8900
#define PR_ID_EVT 8901
#endif
int harness(void) {
  nondet_fill(&ch[0][0], sizeof ch);
  side = 0; step = 0; ci = 0; A_scenario();
  side = 1; step = 0; ci = 0; B_scenario();
  for (int k = 0; k < PR_STEPS; k++) {
    PR_ASSERT(ti[0][k] == ti[1][k], PR_ID_LEN);                 /* same number of observable events in every step */
    for (int i = 0; i < PR_NTR; i++) if (i < ti[0][k] && i < ti[1][k]) PR_ASSERT(tr[0][k][i] == tr[1][k][i], PR_ID_EVT);   /* same events */
  }
  PR_WITNESS(9001);
  return 0;
}

#!/usr/bin/env python3
"""LLVM-14 textual IR (typed pointers) -> C translator, for CBMC (DESIGN.md section 2.4).

Usage: ll2c.py in.ll out.c [opt ...]   opts: align range nsw prefix=<P_>
Every construct it does not know raises (the caller reports INCONCLUSIVE); nothing is skipped."""
import re, sys

# ---------------------------------------------------------------- tokenizer
TOK = re.compile(r'''
    \s+ | ;[^\n]* |
    (?P<str>c"(?:[^"\\]|\\[0-9A-Fa-f]{2}|\\\\)*") |
    (?P<lname>%(?:"[^"]*"|[-a-zA-Z$._0-9]+)) |
    (?P<gname>@(?:"[^"]*"|[-a-zA-Z$._0-9]+)) |
    (?P<meta>![-a-zA-Z$._0-9]*(?:"[^"]*")?) |
    (?P<attr>\#[0-9]+) |
    (?P<num>-?[0-9]+(?:\.[0-9]+(?:e[+-]?[0-9]+)?)?) |
    (?P<hex>0x[0-9A-Fa-f]+) |
    (?P<word>[a-zA-Z_][a-zA-Z_0-9.]*) |
    (?P<dots>\.\.\.) |
    (?P<punct><\{|\}>|[\[\]\{\}\(\)<>,=\*:])
''', re.X)

def tokenize(s):
    out = []; i = 0
    while i < len(s):
        m = TOK.match(s, i)
        if not m: raise SyntaxError('tok @ %r' % s[i:i+40])
        i = m.end()
        k = m.lastgroup
        if k: out.append((k, m.group(k)))
    return out

# ---------------------------------------------------------------- types
class T:  # kind: int/void/ptr/arr/struct/named/func/label/meta
    def __init__(s, k, **kw): s.k = k; s.__dict__.update(kw)
    def __repr__(s): return tstr(s)
def tstr(t):
    if t.k == 'int': return 'i%d' % t.n
    if t.k == 'void': return 'void'
    if t.k == 'ptr': return tstr(t.to) + '*'
    if t.k == 'arr': return '[%d x %s]' % (t.n, tstr(t.el))
    if t.k == 'struct': return ('<{%s}>' if t.packed else '{%s}') % ','.join(map(tstr, t.f))
    if t.k == 'named': return t.name
    if t.k == 'func': return '%s(%s%s)' % (tstr(t.ret), ','.join(map(tstr, t.args)), ',...' if t.va else '')
    return t.k

class P:
    def __init__(s, toks): s.t = toks; s.i = 0
    def peek(s, o=0): return s.t[s.i+o] if s.i+o < len(s.t) else ('eof', '')
    def next(s): r = s.peek(); s.i += 1; return r
    def accept(s, v):
        if s.peek()[1] == v: s.i += 1; return True
        return False
    def expect(s, v):
        if not s.accept(v): raise SyntaxError('expected %r got %r (ctx %r)' % (v, s.peek(), s.t[max(0,s.i-6):s.i+4]))
    def type(s):
        k, v = s.next()
        if k == 'word' and re.fullmatch(r'i[0-9]+', v): t = T('int', n=int(v[1:]))
        elif v == 'void': t = T('void')
        elif v in ('label', 'metadata', 'token'): t = T(v)
        elif v in ('float', 'double', 'x86_fp80'): t = T('fp', name=v)
        elif v == 'opaque': t = T('opaque')
        elif k == 'lname': t = T('named', name=v)
        elif v == '[':
            n = int(s.next()[1]); s.expect('x'); el = s.type(); s.expect(']'); t = T('arr', n=n, el=el)
        elif v == '{' or v == '<{':
            f = []
            close = '}' if v == '{' else '}>'
            if not s.accept(close):
                while True:
                    f.append(s.type())
                    if s.accept(close): break
                    s.expect(',')
            t = T('struct', f=f, packed=(v == '<{'))
        elif v == '<':
            n = int(s.next()[1]); s.expect('x'); el = s.type(); s.expect('>'); t = T('vec', n=n, el=el)
        else: raise SyntaxError('type? %r %r' % (k, v))
        while True:
            if s.accept('*'): t = T('ptr', to=t)
            elif s.peek()[1] == '(':
                s.next(); args = []; va = False
                if not s.accept(')'):
                    while True:
                        if s.accept('...'): va = True
                        else: args.append(s.type())
                        if s.accept(')'): break
                        s.expect(',')
                t = T('func', ret=t, args=args, va=va)
            else: break
        return t

PARAM_ATTRS = {'noundef','nonnull','zeroext','signext','noalias','nocapture','readonly','readnone','writeonly',
               'returned','inreg','nest','immarg','nofree','swiftself','noreturn','inalloca','nounwind'}
def skip_param_attrs(p):
    p.last_align = None
    while True:
        k, v = p.peek()
        if v in PARAM_ATTRS: p.next()
        elif v in ('align', 'dereferenceable', 'dereferenceable_or_null'):
            p.next()
            if p.accept('('): n = p.next()[1]; p.expect(')')
            else: n = p.next()[1]
            if v == 'align': p.last_align = int(n)
        elif v in ('sret', 'byval', 'byref', 'preallocated', 'elementtype'):
            p.next(); p.expect('('); p.type(); p.expect(')')
        else: break

# ---------------------------------------------------------------- values (constants)
class V:
    def __init__(s, k, **kw): s.k = k; s.__dict__.update(kw)

def value(p, ty):
    k, v = p.peek()
    if k == 'lname': p.next(); return V('local', name=v, ty=ty)
    if k == 'gname': p.next(); return V('global', name=v, ty=ty)
    if k == 'num': p.next(); return V('int', v=int(v), ty=ty)
    if v in ('true', 'false'): p.next(); return V('int', v=1 if v == 'true' else 0, ty=ty)
    if v == 'null': p.next(); return V('null', ty=ty)
    if v in ('undef', 'poison'): p.next(); return V('undef', ty=ty)
    if v == 'zeroinitializer': p.next(); return V('zero', ty=ty)
    if k == 'str':
        p.next(); raw = v[2:-1]; bs = []; i = 0
        while i < len(raw):
            if raw[i] == '\\':
                if raw[i+1] == '\\': bs.append(92); i += 2
                else: bs.append(int(raw[i+1:i+3], 16)); i += 3
            else: bs.append(ord(raw[i])); i += 1
        return V('bytes', v=bs, ty=ty)
    if v in ('{', '<{', '['):
        p.next(); close = {'{': '}', '<{': '}>', '[': ']'}[v]; el = []
        if not p.accept(close):
            while True:
                t = p.type(); el.append(value(p, t))
                if p.accept(close): break
                p.expect(',')
        return V('agg', el=el, ty=ty)
    if v == 'getelementptr':
        p.next(); p.accept('inbounds'); p.expect('('); st = p.type(); p.expect(',')
        bt = p.type(); base = value(p, bt); idx = []
        while p.accept(','):
            p.accept('inrange'); it = p.type(); idx.append(value(p, it))
        p.expect(')')
        return V('cgep', st=st, base=base, idx=idx, ty=ty)
    if v in ('bitcast', 'inttoptr', 'ptrtoint', 'trunc', 'zext', 'sext', 'addrspacecast'):
        p.next(); p.expect('('); ft = p.type(); x = value(p, ft); p.expect('to'); tt = p.type(); p.expect(')')
        return V('ccast', op=v, x=x, ty=tt)
    raise SyntaxError('value? %r %r' % (k, v))

# ---------------------------------------------------------------- module parse
class Fn: pass
class Ins: pass

def parse_module(text):
    M = dict(types={}, globals={}, decls={}, fns=[])
    lines = text.split('\n'); i = 0
    while i < len(lines):
        ln = lines[i]; i += 1
        if not ln.strip() or ln.startswith(';') or ln.startswith('target') or ln.startswith('source_filename') \
           or ln.startswith('$') or ln.startswith('attributes') or ln.startswith('!'):
            continue
        if ln.startswith('%'):
            p = P(tokenize(ln)); name = p.next()[1]; p.expect('='); p.expect('type'); M['types'][name] = p.type(); continue
        if ln.startswith('@'):
            p = P(tokenize(ln)); name = p.next()[1]; p.expect('=')
            const = False; ext = False
            while True:
                k, v = p.peek()
                if v in ('global', 'constant'): const = (v == 'constant'); p.next(); break
                if v == 'external': ext = True
                if v == 'alias': raise SyntaxError('alias')
                p.next()
            ty = p.type(); init = None
            if not ext and p.peek()[1] not in (',', '') and p.peek()[0] != 'eof': init = value(p, ty)
            al = None
            while p.peek()[0] != 'eof':
                if p.next()[1] == 'align': al = int(p.next()[1])
            M['globals'][name] = dict(ty=ty, init=init, const=const, align=al); continue
        if ln.startswith('declare') or ln.startswith('define'):
            isdef = ln.startswith('define')
            p = P(tokenize(ln)); p.next()
            while p.peek()[1] in ('dso_local','linkonce_odr','internal','weak_odr','available_externally','hidden','private',
                                   'noundef','zeroext','signext','nonnull','noalias','unnamed_addr','local_unnamed_addr','weak','external','fastcc','ccc','protected','default'): p.next()
            skip_param_attrs(p)
            ret = p.type(); name = p.next()[1]; p.expect('(')
            args = []; va = False
            if not p.accept(')'):
                while True:
                    if p.accept('...'): va = True
                    else:
                        t = p.type(); skip_param_attrs(p)
                        an = None
                        if p.peek()[0] == 'lname': an = p.next()[1]
                        args.append((t, an))
                    if p.accept(')'): break
                    p.expect(',')
            f = Fn(); f.name = name; f.ret = ret; f.args = args; f.va = va; f.blocks = []
            if not isdef: M['decls'][name] = f; continue
            # body
            cur = ('%0' if False else None)
            # entry label = number of args (unnamed numbering) -- compute: count unnamed args
            body = []
            while lines[i] != '}':
                body.append(lines[i]); i += 1
            i += 1
            parse_body(f, body)
            M['fns'].append(f); continue
        raise SyntaxError('top-level? ' + ln[:80])
    return M

def parse_body(f, body):
    # implicit entry label
    nun = sum(1 for (t, an) in f.args if an is None or re.fullmatch(r'%[0-9]+', an))
    named = [an for (t, an) in f.args]
    # clang names unnamed args %0.. and entry block is next number
    cnt = 0
    for j, (t, an) in enumerate(f.args):
        if an is None: f.args[j] = (t, '%%%d' % cnt); cnt += 1
        elif re.fullmatch(r'%[0-9]+', an): cnt = int(an[1:]) + 1
    cur = dict(label='%%%d' % cnt, ins=[]); f.blocks.append(cur)
    j = 0
    while j < len(body):
        ln = body[j]; j += 1
        s = ln.strip()
        if not s or s.startswith(';'): continue
        m = re.match(r'^([-a-zA-Z$._0-9]+|"[^"]*"):', ln)
        if m:
            cur = dict(label='%' + m.group(1), ins=[]); f.blocks.append(cur); continue
        if s.startswith('switch'):
            while not body[j-1].strip().endswith(']'):
                s += ' ' + body[j].strip(); j += 1
        cur['ins'].append(parse_ins(s))

def strip_meta(p):
    # drop trailing ", !tbaa !5", ", align N" handled by caller
    pass

def parse_ins(s):
    # drop metadata attachments (tbaa, nosanitize, noundef, ...) except !range, which carries a value constraint
    s = re.sub(r',\s*!(?!range\b)[A-Za-z_.][-A-Za-z_.0-9]*\s+![0-9]+', '', s)
    p = P(tokenize(s)); I = Ins(); I.res = None; I.text = s
    if p.peek()[0] == 'lname' and p.peek(1)[1] == '=':
        I.res = p.next()[1]; p.next()
    op = p.next()[1]
    if op in ('tail', 'musttail', 'notail'): op = p.next()[1]
    I.op = op
    def tv():
        t = p.type(); return value(p, t)
    if op in ('add','sub','mul','udiv','sdiv','urem','srem','and','or','xor','shl','lshr','ashr'):
        I.flags = []
        while p.peek()[1] in ('nsw','nuw','exact'): I.flags.append(p.next()[1])
        t = p.type(); I.a = value(p, t); p.expect(','); I.b = value(p, t); I.ty = t
    elif op == 'icmp':
        I.pred = p.next()[1]; t = p.type(); I.a = value(p, t); p.expect(','); I.b = value(p, t); I.ty = T('int', n=1)
    elif op in ('zext','sext','trunc','bitcast','ptrtoint','inttoptr','freeze'):
        if op == 'freeze': I.a = tv(); I.ty = I.a.ty
        else: I.a = tv(); p.expect('to'); I.ty = p.type()
    elif op == 'alloca':
        p.accept('inalloca'); I.aty = p.type(); I.cnt = None; I.align = None
        while p.accept(','):
            if p.accept('align'): I.align = int(p.next()[1])
            else: I.cnt = tv()
        I.ty = T('ptr', to=I.aty)
    elif op == 'load':
        p.accept('volatile'); I.ty = p.type(); p.expect(','); I.a = tv(); I.align = None; I.range = None
        while p.accept(','):
            if p.accept('align'): I.align = int(p.next()[1])
            else:
                k, v = p.next()
                if v == '!range': I.range = p.next()[1]
                else: p.next()
    elif op == 'store':
        p.accept('volatile'); I.a = tv(); p.expect(','); I.b = tv(); I.align = None
        while p.accept(','):
            if p.accept('align'): I.align = int(p.next()[1])
            else: p.next(); p.next()
    elif op == 'getelementptr':
        I.inb = p.accept('inbounds'); I.st = p.type(); p.expect(','); I.a = tv(); I.idx = []
        while p.accept(','): I.idx.append(tv())
        I.ty = None
    elif op == 'select':
        I.c = tv(); p.expect(','); I.a = tv(); p.expect(','); I.b = tv(); I.ty = I.a.ty
    elif op == 'phi':
        I.ty = p.type(); I.inc = []
        while True:
            p.expect('['); v = value(p, I.ty); p.expect(','); l = p.next()[1]; p.expect(']'); I.inc.append((v, l))
            if not p.accept(','): break
    elif op == 'br':
        if p.accept('label'): I.dst = [p.next()[1]]; I.c = None
        else:
            I.c = tv(); p.expect(','); p.expect('label'); a = p.next()[1]; p.expect(','); p.expect('label'); b = p.next()[1]; I.dst = [a, b]
    elif op == 'switch':
        I.a = tv(); p.expect(','); p.expect('label'); I.default = p.next()[1]; p.expect('['); I.cases = []
        while not p.accept(']'):
            t = p.type(); v = value(p, t); p.expect(','); p.expect('label'); I.cases.append((v, p.next()[1]))
    elif op == 'ret':
        t = p.type(); I.a = None if t.k == 'void' else value(p, t)
    elif op == 'unreachable': pass
    elif op == 'call':
        while p.peek()[1] in ('fastcc', 'ccc') : p.next()
        skip_param_attrs(p)
        rt = p.type()
        # rt may be full function type for varargs; callee
        k, v = p.peek()
        I.callee = value(p, None)
        p.expect('('); I.args = []; I.arg_aligns = []
        if not p.accept(')'):
            while True:
                t = p.type(); skip_param_attrs(p); I.args.append(value(p, t)); I.arg_aligns.append(p.last_align)
                if p.accept(')'): break
                p.expect(',')
        I.ty = rt.ret if rt.k == 'func' else rt
        if rt.k == 'ptr' and rt.to.k == 'func': I.ty = rt.to.ret
    elif op in ('extractvalue', 'insertvalue'):
        I.a = tv();
        if op == 'insertvalue': p.expect(','); I.b = tv()
        I.idx = []
        while p.accept(','):
            if p.peek()[0] == 'num': I.idx.append(int(p.next()[1]))
            else: break
        I.ty = None
    else:
        raise SyntaxError('ins? ' + s)
    return I

# ---------------------------------------------------------------- C emission
HEAP_FNS = {'@_Znwm', '@_Znam', '@_ZdlPv', '@_ZdaPv', '@_ZdlPvm', '@_ZdaPvm', '@malloc', '@calloc', '@realloc',
            '@free', '@aligned_alloc', '@posix_memalign', '@_ZnwmSt11align_val_t', '@_ZdlPvSt11align_val_t',
            '@_ZnwmRKSt9nothrow_t', '@_ZnamRKSt9nothrow_t', '@strdup'}

def std_width(n):
    for w in (8, 16, 32, 64):
        if n <= w: return w
    raise NotImplementedError('int width %d' % n)

class Emit:
    def __init__(s, M, opts):
        s.M = M; s.opts = opts; s.tnames = {}; s.tdefs = []
        s.prefix = opts.get('prefix', '')
        s.defined = set(f.name for f in M['fns']) | set(n for n, g in M['globals'].items() if g['init'] is not None)
        s.stats = dict(functions=len(M['fns']), instructions=0, asserts=0, ubchecks=0)
    def cid(s, name):
        n = name[1:]
        if n.startswith('"'): n = n[1:-1]
        return re.sub(r'[^A-Za-z0-9_]', lambda m: '_%02x' % ord(m.group()), n)
    def resolve(s, t):
        while t.k == 'named': t = s.M['types'][t.name]
        return t
    def mask(s, n): return '0x%xULL' % ((1 << n) - 1)
    def ct(s, t):
        if t.k == 'int':
            if t.n == 1: return 'uint8_t'
            return 'uint%d_t' % std_width(t.n)
        if t.k == 'void': return 'void'
        if t.k == 'ptr':
            if t.to.k == 'func': return s.fptr(t.to)
            if t.to.k == 'void' or s.is_opaque(t.to): return 'void*'
            if t.to.k == 'int' and t.to.n not in (1, 8, 16, 32, 64): return 'uint8_t*'   # odd width: byte access
            return s.ct(t.to) + '*'
        if t.k == 'named':
            r = s.M['types'][t.name]
            if r.k == 'opaque': return 'void'
            if t.name not in s.tnames:
                nm = 'struct ' + s.prefix + 'S_' + s.cid(t.name)
                s.tnames[t.name] = nm
                s.defstruct(nm, r)
            return s.tnames[t.name]
        if t.k in ('struct', 'arr'):
            key = tstr(t)
            if key not in s.tnames:
                nm = 'struct %sA%d' % (s.prefix, len(s.tnames)); s.tnames[key] = nm
                s.defstruct(nm, t)
            return s.tnames[key]
        if t.k == 'func': return s.fptr(t)
        raise NotImplementedError('type ' + tstr(t))
    def is_opaque(s, t): return t.k == 'named' and s.M['types'][t.name].k == 'opaque'
    def fptr(s, ft):
        key = 'fp:' + tstr(ft)
        if key not in s.tnames:
            nm = '%sFP%d' % (s.prefix, len(s.tnames)); s.tnames[key] = nm
            args = ', '.join(s.ct(a) for a in ft.args)
            if ft.va: args = (args + ', ...') if args else ''
            elif not args: args = 'void'
            s.tdefs.append('typedef %s (*%s)(%s);' % (s.ct(ft.ret), nm, args))
        return s.tnames[key]
    def defstruct(s, nm, t):
        if t.k == 'arr':
            el = s.ct(t.el)
            s.tdefs.append('%s { %s a[%d]; };' % (nm, el, t.n))      # [0 x T] stays a zero-length (GNU) array: any access is out of bounds
            return
        s.tdefs.append(nm + ';')
        fs = []
        for j, f in enumerate(t.f):
            if f.k == 'int' and f.n not in (1, 8, 16, 32, 64):
                if f.n % 8: raise NotImplementedError('odd int field i%d' % f.n)
                fs.append('uint8_t f%d[%d];' % (j, f.n // 8))
            else:
                fs.append('%s f%d;' % (s.ct(f), j))
        if not fs: raise NotImplementedError('empty literal struct')
        s.tdefs.append('%s { %s }%s;' % (nm, ' '.join(fs), ' __attribute__((packed))' if t.packed else ''))

    # ---- names
    def gname(s, name):
        c = s.cid(name)
        if s.prefix and c.startswith(s.prefix): return c         # already carries the module prefix (product entry points)
        return (s.prefix if name in s.defined else '') + c
    def lname(s, name):
        return ('v' + name[1:]) if re.fullmatch(r'%[0-9]+', name) else ('l_' + s.cid(name))

    # ---- values
    def val(s, v):
        if v.k == 'local': return s.lname(v.name)
        if v.k == 'global':
            n = s.gname(v.name)
            if v.name in s.M['globals']: return '(&%s)' % n
            return n
        if v.k == 'int':
            n = v.ty.n if v.ty and v.ty.k == 'int' else 64
            x = v.v & ((1 << n) - 1)
            return '((%s)%dULL)' % (s.ct(v.ty), x) if v.ty else str(x)
        if v.k == 'null': return '((%s)0)' % s.ct(v.ty)
        if v.k == 'undef':
            if v.ty.k == 'int':
                e = '((%s)nondet_u64())' % s.ct(v.ty)
                if v.ty.n not in (8, 16, 32, 64): e = '(%s & %s)' % (e, s.mask(v.ty.n))
                return e
            if v.ty.k == 'ptr': return '((%s)0)' % s.ct(v.ty)
            return '((%s){0})' % s.ct(v.ty)
        if v.k == 'zero':
            if v.ty.k in ('int',): return '((%s)0)' % s.ct(v.ty)
            if v.ty.k == 'ptr': return '((%s)0)' % s.ct(v.ty)
            return '((%s){0})' % s.ct(v.ty)
        if v.k == 'ccast':
            if v.op in ('bitcast', 'inttoptr', 'addrspacecast'):
                if v.op == 'inttoptr': return '((%s)(uintptr_t)%s)' % (s.ct(v.ty), s.val(v.x))
                return '((%s)%s)' % (s.ct(v.ty), s.val(v.x))
            if v.op == 'ptrtoint': return '((%s)(uintptr_t)%s)' % (s.ct(v.ty), s.val(v.x))
            raise NotImplementedError('const ' + v.op)
        if v.k == 'cgep': return s.gep(v.st, v.base, v.idx)[0]
        raise NotImplementedError('value kind ' + v.k)
    def gep(s, st, base, idx):
        if st.k == 'int' and st.n not in (1, 8, 16, 32, 64): raise NotImplementedError('gep over odd int')
        if st.k == 'void' or s.is_opaque(st): raise NotImplementedError('gep over opaque')
        e = '(%s + (int64_t)%s)' % (s.val(base), s.sval(idx[0])); t = st
        acc = '(*%s)' % e
        for ix in idx[1:]:
            r = s.resolve(t)
            if r.k == 'struct':
                if ix.k != 'int': raise NotImplementedError('dynamic struct index')
                n = ix.v; acc += '.f%d' % n; t = r.f[n]
                if t.k == 'int' and t.n not in (1, 8, 16, 32, 64): return ('(&%s[0])' % acc, T('ptr', to=t))
            elif r.k == 'arr':
                acc += '.a[(int64_t)%s]' % s.sval(ix); t = r.el
            else: raise NotImplementedError('gep into ' + tstr(r))
        return ('(&%s)' % acc, T('ptr', to=t))
    def sval(s, v):
        if v.k == 'int': return '%dLL' % v.v
        n = v.ty.n
        if n in (8, 16, 32, 64): return '((int%d_t)%s)' % (n, s.val(v))
        raise NotImplementedError('odd index width')

    # ---- constant initializers
    def init(s, v):
        t = v.ty
        if v.k == 'zero': return '{0}' if s.resolve(t).k in ('struct', 'arr') else '0'
        if v.k == 'bytes': return '{{' + ','.join(map(str, v.v)) + '}}'
        if v.k == 'agg':
            r = s.resolve(t)
            inner = ', '.join(s.init(e) for e in v.el)
            return '{{' + inner + '}}' if r.k == 'arr' else '{' + inner + '}'
        if v.k == 'undef': return '{0}' if s.resolve(t).k in ('struct', 'arr') else '0'
        return s.val(v)

    def proto(s, f):
        args = ', '.join('%s %s' % (s.ct(t), s.lname(an) if an else '') for (t, an) in f.args) or 'void'
        return '%s %s(%s%s)' % (s.ct(f.ret), s.gname(f.name), args, ', ...' if f.va else '')

    def run(s):
        M = s.M
        gl = []
        for name, g in M['globals'].items():
            ty = s.ct(g['ty']); n = s.gname(name)
            al = ' __attribute__((aligned(%d)))' % g['align'] if g['align'] else ''
            if g['init'] is None: gl.append('extern %s %s;' % (ty, n))
            else: gl.append('extern %s %s;' % (ty, n))
        gdefs = []
        for name, g in M['globals'].items():
            if g['init'] is None: continue
            ty = s.ct(g['ty']); n = s.gname(name)
            al = ' __attribute__((aligned(%d)))' % g['align'] if g['align'] else ''
            gdefs.append('%s %s%s = %s;' % (ty, n, al, s.init(g['init'])))
        protos = []
        for name, f in M['decls'].items():
            if name.startswith('@llvm.') or name in HEAP_FNS: continue
            if name in ('@vassert', '@vassume', '@vwitness', '@memcpy', '@memmove', '@memset', '@memcmp'): continue
            protos.append(s.proto(f) + ';')
        for f in M['fns']: protos.append(s.proto(f) + ';')
        bodies = [s.fn(f) for f in M['fns']]
        out = ['#include "prelude.h"']
        out += s.tdefs; out += protos; out += gl; out += gdefs; out += bodies
        return '\n'.join(out) + '\n'

    def rangeof(s, meta):
        m = s.M.get('meta', {}).get(meta)
        return m

    def fn(s, f):
        L = [s.proto(f) + ' {']
        decls = {}; code = []
        types = {}
        for (t, an) in f.args: types[an] = t
        for b in f.blocks:
            for I in b['ins']:
                if I.res is None: continue
                if I.op == 'getelementptr': I.ty = s.gep(I.st, I.a, I.idx)[1]
                if I.op == 'extractvalue':
                    t = I.a.ty
                    for ix in I.idx:
                        r = s.resolve(t); t = r.f[ix] if r.k == 'struct' else r.el
                    I.ty = t
                if I.op == 'insertvalue': I.ty = I.a.ty
                types[I.res] = I.ty
        def lab(l): return 'L' + s.cid(l)
        nm = s.lname
        phis = {}
        for b in f.blocks:
            for I in b['ins']:
                if I.op == 'phi':
                    for (v, l) in I.inc: phis.setdefault((l, b['label']), []).append((I.res, v))
        def jump(frm, to):
            ps = phis.get((frm, to), [])
            pre = ''.join('%s_t = %s; ' % (nm(d), s.val(v)) for (d, v) in ps) + ''.join('%s = %s_t; ' % (nm(d), nm(d)) for (d, v) in ps)
            return '{ %sgoto %s; }' % (pre, lab(to))
        def odd(t): return t.k == 'int' and t.n not in (1, 8, 16, 32, 64)
        phi_consts = {}
        for b in f.blocks:
            for I in b['ins']:
                if I.op == 'phi' and all(v.k == 'int' for (v, l) in I.inc): phi_consts[I.res] = sorted(set(v.v for (v, l) in I.inc))
        def ub(line): s.stats['ubchecks'] += 1; code.append(line)
        for b in f.blocks:
            code.append('%s: ;' % lab(b['label']))
            for I in b['ins']:
                s.stats['instructions'] += 1
                op = I.op; r = nm(I.res) if I.res else None
                if op in ('add','sub','mul','and','or','xor','udiv','urem','shl','lshr'):
                    cop = {'add':'+','sub':'-','mul':'*','and':'&','or':'|','xor':'^','udiv':'/','urem':'%','shl':'<<','lshr':'>>'}[op]
                    n = I.ty.n; ct = s.ct(I.ty); wide = 'uint64_t' if n > 32 else 'uint32_t'
                    a = s.val(I.a); b_ = s.val(I.b)
                    if op in ('udiv', 'urem'): ub('  ASSERT_UB(%s != 0, "division by zero");' % b_)
                    if op in ('shl', 'lshr') and s.opts.get('poison'): ub('  ASSERT_UB(%s < %d, "shift amount out of range");' % (b_, n))
                    if 'nsw' in I.flags and s.opts.get('poison') and op in ('add', 'sub', 'mul') and n in (8, 16, 32, 64):
                        wt = '__int128' if n == 64 else 'int64_t'
                        ub('  ASSERT_UB(((%s)(int%d_t)%s %s (%s)(int%d_t)%s) >= (%s)INT%d_MIN && ((%s)(int%d_t)%s %s (%s)(int%d_t)%s) <= (%s)INT%d_MAX, "signed overflow");'
                           % (wt, n, a, cop, wt, n, b_, wt, n, wt, n, a, cop, wt, n, b_, wt, n))
                    if op in ('shl', 'lshr'):
                        e = '(%s)(%s < %d ? ((%s)%s %s %s) : 0)' % (ct, b_, n, wide, a, cop, b_)
                    else:
                        e = '(%s)((%s)%s %s (%s)%s)' % (ct, wide, a, cop, wide, b_)
                    if n not in (8, 16, 32, 64): e = '(%s)(%s & %s)' % (ct, e, s.mask(n))
                    code.append('  %s = %s;' % (r, e))
                elif op in ('sdiv','srem','ashr'):
                    n = I.ty.n
                    if n not in (8, 16, 32, 64): raise NotImplementedError('signed op on odd width')
                    cop = {'sdiv':'/','srem':'%','ashr':'>>'}[op]
                    a = s.val(I.a); b_ = s.val(I.b)
                    if op in ('sdiv', 'srem'):
                        ub('  ASSERT_UB(%s != 0, "division by zero");' % b_)
                        ub('  ASSERT_UB(!((int%d_t)%s == INT%d_MIN && (int%d_t)%s == -1), "signed division overflow");' % (n, a, n, n, b_))
                    elif s.opts.get('poison'): ub('  ASSERT_UB(%s < %d, "shift amount out of range");' % (b_, n))
                    code.append('  %s = (%s)((int%d_t)%s %s (int%d_t)%s);' % (r, s.ct(I.ty), n, a, cop, n, b_))
                elif op == 'icmp':
                    t = I.a.ty; a = s.val(I.a); b_ = s.val(I.b); pr = I.pred
                    if t.k == 'ptr':
                        cop = {'eq':'==','ne':'!=','ult':'<','ule':'<=','ugt':'>','uge':'>='}[pr]
                        if pr in ('eq', 'ne'): code.append('  %s = ((void*)%s %s (void*)%s);' % (r, a, cop, b_))
                        else: code.append('  %s = ((uintptr_t)%s %s (uintptr_t)%s);' % (r, a, cop, b_))
                    elif pr[0] == 's':
                        cop = {'slt':'<','sle':'<=','sgt':'>','sge':'>='}[pr]; n = t.n
                        if n not in (8, 16, 32, 64): raise NotImplementedError('signed cmp on odd width')
                        code.append('  %s = ((int%d_t)%s %s (int%d_t)%s);' % (r, n, a, cop, n, b_))
                    else:
                        cop = {'eq':'==','ne':'!=','ult':'<','ule':'<=','ugt':'>','uge':'>='}[pr]
                        code.append('  %s = (%s %s %s);' % (r, a, cop, b_))
                elif op == 'zext': code.append('  %s = (%s)%s;' % (r, s.ct(I.ty), s.val(I.a)))
                elif op == 'sext':
                    n = I.a.ty.n
                    if n == 1: e = '(%s)(-(int64_t)%s)' % (s.ct(I.ty), s.val(I.a))
                    elif n in (8, 16, 32, 64): e = '(%s)(int%d_t)(int%d_t)%s' % (s.ct(I.ty), std_width(I.ty.n), n, s.val(I.a))
                    else: raise NotImplementedError('sext from odd width')
                    if I.ty.n not in (8, 16, 32, 64): e = '(%s)(%s & %s)' % (s.ct(I.ty), e, s.mask(I.ty.n))
                    code.append('  %s = %s;' % (r, e))
                elif op == 'trunc':
                    e = '(%s)%s' % (s.ct(I.ty), s.val(I.a))
                    if I.ty.n not in (8, 16, 32, 64): e = '(%s)(%s & %s)' % (s.ct(I.ty), e, s.mask(I.ty.n))
                    code.append('  %s = %s;' % (r, e))
                elif op == 'bitcast':
                    if I.ty.k != 'ptr' and I.ty.k != I.a.ty.k: raise NotImplementedError('non-pointer bitcast')
                    code.append('  %s = (%s)%s;' % (r, s.ct(I.ty), s.val(I.a)))
                elif op == 'inttoptr': code.append('  %s = (%s)(uintptr_t)%s;' % (r, s.ct(I.ty), s.val(I.a)))
                elif op == 'ptrtoint': code.append('  %s = (%s)(uintptr_t)%s;' % (r, s.ct(I.ty), s.val(I.a)))
                elif op == 'freeze': code.append('  %s = %s;' % (r, s.val(I.a)))
                elif op == 'alloca':
                    if I.cnt is not None and not (I.cnt.k == 'int' and I.cnt.v == 1): raise NotImplementedError('array alloca')
                    al = ' __attribute__((aligned(%d)))' % I.align if I.align else ''
                    if odd(I.aty): decls[r + '_obj'] = 'uint8_t %s_obj[%d]%s;' % (r, I.aty.n // 8, al); code.append('  %s = &%s_obj[0];' % (r, r))
                    else: decls[r + '_obj'] = '%s %s_obj%s;' % (s.ct(I.aty), r, al); code.append('  %s = &%s_obj;' % (r, r))
                elif op == 'load':
                    p = s.val(I.a)
                    if s.opts.get('align') and I.align and I.align > 1: ub('  ASSERT_ALIGN(%s, %d);' % (p, I.align))
                    if odd(I.ty):
                        if I.ty.n % 8: raise NotImplementedError('load i%d' % I.ty.n)
                        code.append('  %s = 0; memcpy(&%s, %s, %d);' % (r, r, p, I.ty.n // 8))
                    else: code.append('  %s = *%s;' % (r, p))
                    if I.ty.k == 'int' and I.ty.n == 1: code.append('  %s &= 1;' % r)
                    if I.range and s.opts.get('range'):
                        rg = s.M['meta'].get(I.range)
                        if rg:
                            lo, hi = rg
                            if lo < hi: ub('  ASSERT_UB(%s >= %dULL && %s < %dULL, "load outside !range (e.g. invalid bool)");' % (r, lo, r, hi))
                elif op == 'store':
                    p = s.val(I.b)
                    if s.opts.get('align') and I.align and I.align > 1: ub('  ASSERT_ALIGN(%s, %d);' % (p, I.align))
                    if odd(I.a.ty):
                        if I.a.ty.n % 8: raise NotImplementedError('store i%d' % I.a.ty.n)
                        code.append('  { %s st_tmp = %s; memcpy(%s, &st_tmp, %d); }' % (s.ct(I.a.ty), s.val(I.a), p, I.a.ty.n // 8))
                    else: code.append('  *%s = %s;' % (p, s.val(I.a)))
                elif op == 'getelementptr': code.append('  %s = %s;' % (r, s.gep(I.st, I.a, I.idx)[0]))
                elif op == 'select': code.append('  %s = %s ? %s : %s;' % (r, s.val(I.c), s.val(I.a), s.val(I.b)))
                elif op == 'phi': decls[r + '_t'] = '%s %s_t;' % (s.ct(I.ty), r)
                elif op == 'br':
                    if I.c is None: code.append('  ' + jump(b['label'], I.dst[0]))
                    else: code.append('  if (%s) %s else %s' % (s.val(I.c), jump(b['label'], I.dst[0]), jump(b['label'], I.dst[1])))
                elif op == 'switch':
                    code.append('  switch (%s) {' % s.val(I.a))
                    for (v, l) in I.cases: code.append('    case %s: %s' % (s.val(v), jump(b['label'], l)))
                    code.append('    default: %s }' % jump(b['label'], I.default))
                elif op == 'ret': code.append('  return%s;' % (' ' + s.val(I.a) if I.a else ''))
                elif op == 'unreachable': code.append('  UNREACHABLE();')
                elif op == 'extractvalue' and I.a.k == 'agg':
                    v = I.a                                        # constant aggregate (e.g. a member-function pointer): select statically
                    for ix in I.idx: v = v.el[ix]
                    code.append('  %s = %s;' % (r, s.val(v)))
                elif op == 'extractvalue':
                    acc = s.val(I.a); t = I.a.ty
                    for ix in I.idx:
                        rr = s.resolve(t)
                        if rr.k == 'struct': acc += '.f%d' % ix; t = rr.f[ix]
                        else: acc += '.a[%d]' % ix; t = rr.el
                    code.append('  %s = %s;' % (r, acc))
                elif op == 'insertvalue':
                    code.append('  %s = %s;' % (r, s.val(I.a)))
                    acc = r; t = I.a.ty
                    for ix in I.idx:
                        rr = s.resolve(t)
                        if rr.k == 'struct': acc += '.f%d' % ix; t = rr.f[ix]
                        else: acc += '.a[%d]' % ix; t = rr.el
                    code.append('  %s = %s;' % (acc, s.val(I.b)))
                elif op == 'call':
                    cal = I.callee
                    if cal.k == 'global' and cal.name.startswith('@llvm.'):
                        n = cal.name
                        if 'lifetime' in n or 'noalias.scope' in n or n.startswith('@llvm.dbg') or n.startswith('@llvm.invariant'): continue
                        if n.startswith('@llvm.assume'): ub('  ASSUME_LLVM(%s);' % s.val(I.args[0])); continue
                        if n.startswith('@llvm.memcpy') or n.startswith('@llvm.memmove') or n.startswith('@llvm.memset'):
                            if s.opts.get('align'):              # the alignment the compiler was told it may assume for the operands
                                for a, al in list(zip(I.args, I.arg_aligns))[:2]:
                                    if al and al > 1 and a.ty.k == 'ptr': ub('  ASSERT_ALIGN(%s, %d);' % (s.val(a), al))
                        if n.startswith('@llvm.memcpy') or n.startswith('@llvm.memmove'):
                            code.append('  memmove(%s, %s, %s);' % tuple(s.val(a) for a in I.args[:3])); continue
                        if n.startswith('@llvm.memset'):
                            code.append('  memset(%s, %s, %s);' % tuple(s.val(a) for a in I.args[:3])); continue
                        m = re.match(r'@llvm\.(u|s)(min|max)\.i(\d+)', n)
                        if m:
                            sg, mm, w = m.groups(); c = 'int%s_t' % w if sg == 's' else 'uint%s_t' % w
                            a, b_ = s.val(I.args[0]), s.val(I.args[1])
                            code.append('  %s = ((%s)%s %s (%s)%s) ? %s : %s;' % (r, c, a, '<' if mm == 'min' else '>', c, b_, a, b_)); continue
                        m = re.match(r'@llvm\.(ctlz|cttz|ctpop)\.i(\d+)', n)
                        if m:
                            k, w = m.group(1), int(m.group(2)); a = s.val(I.args[0])
                            if w not in (8, 16, 32, 64): raise NotImplementedError(n)
                            if k == 'ctpop': code.append('  %s = (%s)__builtin_popcountll((uint64_t)%s);' % (r, s.ct(I.ty), a))
                            elif k == 'ctlz': code.append('  %s = (%s)(%s ? (__builtin_clzll((uint64_t)%s) - %d) : %d);' % (r, s.ct(I.ty), a, a, 64 - w, w))
                            else: code.append('  %s = (%s)(%s ? __builtin_ctzll((uint64_t)%s) : %d);' % (r, s.ct(I.ty), a, a, w))
                            continue
                        m = re.match(r'@llvm\.bswap\.i(\d+)', n)
                        if m:
                            code.append('  %s = __builtin_bswap%s(%s);' % (r, m.group(1), s.val(I.args[0]))); continue
                        m = re.match(r'@llvm\.abs\.i(\d+)', n)
                        if m:
                            w = m.group(1); a = s.val(I.args[0])
                            code.append('  %s = (%s)(((int%s_t)%s < 0) ? (0 - %s) : %s);' % (r, s.ct(I.ty), w, a, a, a)); continue
                        m = re.match(r'@llvm\.fsh(l|r)\.i(\d+)', n)
                        if m:
                            d, w = m.group(1), int(m.group(2))
                            a, b_, c = (s.val(x) for x in I.args[:3]); ct = s.ct(I.ty)
                            sh = '(%s %% %d)' % (c, w)
                            if d == 'l': code.append('  %s = (%s)(%s ? (((%s)%s << %s) | ((%s)%s >> (%d - %s))) : %s);' % (r, ct, sh, ct, a, sh, ct, b_, w, sh, a))
                            else: code.append('  %s = (%s)(%s ? (((%s)%s << (%d - %s)) | ((%s)%s >> %s)) : %s);' % (r, ct, sh, ct, a, w, sh, ct, b_, sh, b_))
                            continue
                        raise NotImplementedError('intrinsic ' + n)
                    if cal.k == 'global' and cal.name == '@vassert' and len(I.args) == 2 and I.args[1].k == 'int':
                        s.stats['asserts'] += 1
                        code.append('  VASSERT(%s, %d);' % (s.val(I.args[0]), I.args[1].v)); continue
                    if cal.k == 'global' and cal.name == '@vassert' and len(I.args) == 2 and I.args[1].k == 'local' and I.args[1].name in phi_consts:
                        # clang sank two vassert calls into one block: the id is a phi of constants
                        ids = phi_consts[I.args[1].name]; s.stats['asserts'] += len(ids)
                        chain = ' else '.join('if (%s == %d) VASSERT(%s, %d);' % (s.val(I.args[1]), k, s.val(I.args[0]), k) for k in ids)
                        code.append('  %s else VASSERT(0, 9999);' % chain); continue
                    if cal.k == 'global' and cal.name == '@vwitness' and I.args[0].k == 'int':
                        code.append('  VWITNESS(%d);' % I.args[0].v); continue
                    if cal.k == 'global' and cal.name == '@vassume':
                        code.append('  VASSUME(%s);' % s.val(I.args[0])); continue
                    if cal.k == 'global' and cal.name in HEAP_FNS:
                        code.append('  HEAP_CALL("%s");' % cal.name[1:])
                        if r and I.ty.k != 'void': code.append('  %s = (%s)0;' % (r, s.ct(I.ty)))
                        continue
                    if cal.k == 'global' and cal.name in ('@memcpy', '@memmove', '@memset', '@memcmp'):
                        args = ', '.join(s.val(a) for a in I.args)
                        code.append('  %s%s(%s);' % ((r + ' = (%s)' % s.ct(I.ty)) if r and I.ty.k != 'void' else '', cal.name[1:].replace('memcpy', 'memmove'), args)); continue
                    args = ', '.join(s.val(a) for a in I.args)
                    if cal.k == 'global': fn_ = s.gname(cal.name)
                    else:
                        ft = T('func', ret=I.ty, args=[a.ty for a in I.args], va=False)
                        fn_ = '((%s)%s)' % (s.fptr(ft), s.val(cal))
                    code.append('  %s%s(%s);' % ((r + ' = ') if r and I.ty.k != 'void' else '', fn_, args))
                else: raise NotImplementedError('instruction ' + op)
        for r_, t in types.items():
            if t is None or t.k == 'void': continue
            if any(r_ == an for (_, an) in f.args): continue
            decls[nm(r_)] = '%s %s;' % (s.ct(t), nm(r_))
        L += ['  ' + d for d in decls.values()]
        L += code; L.append('}')
        return '\n'.join(L)

def parse_meta(text):
    meta = {}
    for m in re.finditer(r'^(![0-9]+) = !\{i(\d+) (-?\d+), i\d+ (-?\d+)\}\s*$', text, re.M):
        w = int(m.group(2)); lo = int(m.group(3)) & ((1 << w) - 1); hi = int(m.group(4)) & ((1 << w) - 1)
        meta[m.group(1)] = (lo, hi)
    return meta

def translate(text, opts):
    M = parse_module(text); M['meta'] = parse_meta(text)
    e = Emit(M, opts); return e.run(), e.stats, M

if __name__ == '__main__':
    opts = {}
    for o in sys.argv[3:]:
        if '=' in o: k, v = o.split('=', 1); opts[k] = v
        else: opts[o] = True
    out, stats, _ = translate(open(sys.argv[1]).read(), opts)
    open(sys.argv[2], 'w').write(out)
    sys.stderr.write('ll2c: %r\n' % stats)

// Plan harness (DESIGN.md 5: C08, C09; plan-task payloads of C07; C01 with plans enabled).
// Real machine with a root head (planSucceeded/planFailed), N=3 states, task capacity CAP, optional payload.
// The log interface is compiled in and used as an OBSERVATION CHANNEL: every request the library issues for a
// plan task produces a transition record (origin, destination) - C16 checks that logging is faithful - which
// gives the exact firing sequence of a cycle.
// Reference model kept by the harness from its own actions: the task list in append order, and two views of
// the outstanding reports: *_may (superset: cleared only when certainly consumed) for "only if" clauses and
// *_must (subset: cleared by anything that may consume them) for the converse clauses.
#ifndef FFSM2_DISABLE_TYPEINDEX
#define FFSM2_DISABLE_TYPEINDEX
#endif
#define FFSM2_ENABLE_PLANS
#define FFSM2_ENABLE_LOG_INTERFACE
#include "vrt.h"
#include <ffsm2/machine.hpp>
#ifndef CAP
#define CAP 3
#endif
#ifndef KSTEPS
#define KSTEPS 2
#endif
#ifndef PAYLOAD
#define PAYLOAD 0
#endif
#ifndef PREFIX
#define PREFIX 0       // 1: drive the machine to an arbitrary plan / report / active state first (callbacks passive)
#endif
#ifndef LIMIT
#define LIMIT 2
#endif
#ifndef PROP
#define PROP 0
#endif
#ifndef MANUAL
#define MANUAL 0       // 1: manual activation; histories may deactivate and re-activate the machine ("since activation")
#endif
#define PSEL(p) (PROP == 0 || PROP == (p))
#define VA(c, id) do { if (PSEL((id) / 100)) vassert((c), (id)); } while (0)
#ifndef OPS
#define OPS 0xFFFF
#endif
#ifndef EDITS
#define EDITS 1      // 1: callbacks may also edit the plan (append in update()/react()/enter(), clear in update()/react())
#endif
#ifndef NST
#define NST 3
#endif
static const int INV = 255;
#if MANUAL
typedef ffsm2::Config::ManualActivation BaseCfg;
#else
typedef ffsm2::Config BaseCfg;
#endif
#if PAYLOAD
struct Pay { unsigned v; unsigned short w; };
using M = ffsm2::MachineT<BaseCfg::TaskCapacityN<CAP>::SubstitutionLimitN<LIMIT>::PayloadT<Pay>>;
#else
using M = ffsm2::MachineT<BaseCfg::TaskCapacityN<CAP>::SubstitutionLimitN<LIMIT>>;
#endif
template <int I> struct St; struct Rt;
#if NST == 2
using FSM = M::Root<Rt, St<0>, St<1>>;
#else
using FSM = M::Root<Rt, St<0>, St<1>, St<2>>;
#endif
typedef FSM::Instance Inst;
static Inst* g;

// ------------------------------------------------------------------------------------------ reference model
static int  mo[CAP + 1], md[CAP + 1], mn;                  // tasks in append order
#if PAYLOAD
static bool mhp[CAP + 1]; static unsigned mpv[CAP + 1]; static unsigned short mpw[CAP + 1];
#endif
static bool succ_may[NST], succ_must[NST], fail_may[NST], fail_must[NST];
static bool ever_added;                                    // a task was added since activation
static int  mon_active = -1;
static bool passive;                                       // callbacks do nothing (prefix)
// per call
enum { CALL_NONE, CALL_CYCLE, CALL_OTHER };
static int  call_kind; static int call_before;
static bool phases_done, guards_started;                   // the plan step sits between the last phase callback and the first guard
static int  cyc_succ_calls, cyc_fail_calls;                // succeed()/fail() calls made by phase callbacks in this cycle
static int  n_fired; static int last_fo, last_fd;
#if PAYLOAD
static bool last_fhp; static unsigned last_fpv; static unsigned short last_fpw;
#endif
static int  n_psucc, n_pfail;                              // plan outcome callbacks in this cycle
static bool appended_after_outcome;
static bool exp_tr; static int exp_tr_o, exp_tr_d;         // the harness's own changeTo is in progress
// snapshot of the model at the plan step (for the converse clauses)
static bool ps_taken; static int ps_mn, ps_head_o; static bool ps_succ_active, ps_fail_active, ps_any_fail;

static void model_clear_reports() { for (int i = 0; i < NST; ++i) succ_may[i] = succ_must[i] = fail_may[i] = fail_must[i] = false; }
static void model_pop_head() { for (int k = 0; k < CAP; ++k) if (k + 1 < mn) { mo[k] = mo[k + 1]; md[k] = md[k + 1];
#if PAYLOAD
    mhp[k] = mhp[k + 1]; mpv[k] = mpv[k + 1]; mpw[k] = mpw[k + 1];
#endif
  } if (mn > 0) mn--; }

static void take_plan_step_snapshot() {      // called when the last phase callback returns: the plan step is next
  if (ps_taken) return; ps_taken = true;
  ps_mn = mn; ps_head_o = mn > 0 ? mo[0] : -1;
  ps_succ_active = mon_active >= 0 && succ_must[mon_active];
  ps_fail_active = mon_active >= 0 && fail_must[mon_active];
  ps_any_fail = cyc_fail_calls > 0; for (int i = 0; i < NST; ++i) ps_any_fail = ps_any_fail || fail_may[i];
}

// ------------------------------------------------------------------------------------------ observation: transition records
// The logger only notes what fired and whether the moment was right; the firings are settled against the model at
// the first model-relevant moment after the plan step (settle_firings), which keeps the code at every log site tiny.
static int  fo_[CAP + 1], fd_[CAP + 1], nf_raw; static bool fired_at_right_time = true, fired_before_failed = true;
struct Logger : M::LoggerInterface {
  void recordTransition(const Context&, const StateID origin, const StateID target) override {
    if (exp_tr) { exp_tr = false; return; }                 // the harness's own request
    vrec(40, origin * 16 + target);                          // a request issued by the library on behalf of a plan task: a task FIRES
    if (!(call_kind == CALL_CYCLE && phases_done && !guards_started)) fired_at_right_time = false;
    if (n_pfail) fired_before_failed = false;
    if (nf_raw < CAP) { fo_[nf_raw] = origin; fd_[nf_raw] = target; }
    nf_raw++;
  }
};
static void settle_firings() {
  VA(fired_at_right_time, 801);                                                  // only during the plan step of update()/react()
  VA(fired_before_failed, 905);                                                  // no task fires in a cycle that delivers planFailed()
  VA(nf_raw <= CAP, 804);
  for (int f = 0; f < CAP; ++f) if (f < nf_raw) {
    const int origin = fo_[f], target = fd_[f];
    VA(origin == call_before, 802);                                              // only for the active state
    VA(origin < NST && succ_may[origin < NST ? origin : 0], 803);               // ... which has an outstanding success report
    VA(mn > 0, 804);
    if (mn > 0) {
      VA(origin == mo[0] && target == md[0], 805);                              // it is the task at the head: nothing with another origin is ahead of it
      last_fo = mo[0]; last_fd = md[0];
#if PAYLOAD
      last_fhp = mhp[0]; last_fpv = mpv[0]; last_fpw = mpw[0];
#endif
      if (mo[0] == md[0] && origin < NST) { succ_may[origin] = false; succ_must[origin] = false; }   // a cyclic task consumes the report at once
      model_pop_head();                                                         // a task that fires is removed
    }
    n_fired++;
  }
  nf_raw = 0;
}

// ------------------------------------------------------------------------------------------ actions of callbacks
template <typename TC> static void do_change(TC& c, int origin) {
  int d = nondet_below(NST); exp_tr = true; exp_tr_o = origin; exp_tr_d = d; c.changeTo(d); exp_tr = false; }
static void note_succeed(int id) { succ_may[id] = true; succ_must[id] = true; }
static void note_fail(int id) { fail_may[id] = true; fail_must[id] = true; }
template <typename TP> static void do_append(TP&& plan) {
  settle_firings();
  int o = nondet_below(NST), d = nondet_below(NST); bool ok;
#if PAYLOAD
  bool withp = nondet_u8() & 1; Pay p; p.v = nondet_u32(); p.w = (unsigned short)nondet_u32();
  if (withp) ok = plan.changeWith(o, d, p); else
#endif
  ok = plan.change(o, d);
  VA(ok == (mn < CAP), 806);
  if (ok) { mo[mn] = o; md[mn] = d;
#if PAYLOAD
    mhp[mn] = withp; mpv[mn] = p.v; mpw[mn] = p.w;
#endif
    mn++; ever_added = true; if (n_psucc + n_pfail) appended_after_outcome = true; }
}
template <typename TC> static void full_act(TC& c, int I, bool edits) {       // phase callbacks: any mix of requests, reports and (where edits) plan edits
  if (passive) return;
  unsigned char k = nondet_u8();
  if ((!edits || !EDITS) && (k & 7) >= 5) return;
  switch (k & 7) {
    case 1: do_change(c, I < 0 ? INV : I); break;
    case 2: if (I >= 0) { c.succeed(); note_succeed(I); cyc_succ_calls++; } break;
    case 3: if (I >= 0) { c.fail(); note_fail(I); cyc_fail_calls++; } break;
    case 4: { int id = nondet_below(NST); if (k & 8) { c.succeed(id); note_succeed(id); cyc_succ_calls++; } else { c.fail(id); note_fail(id); cyc_fail_calls++; } } break;
    case 5: do_append(c.plan()); break;
    case 6: c.plan().clear(); mn = 0; model_clear_reports(); break;
    default: break;
  }
}
template <typename TG> static void guard_act(TG& c, int I) {
  if (passive) return;
  unsigned char k = nondet_u8();
  if (k & 1) c.cancelPendingTransition();
  if (k & 2) do_change(c, I);
}

static int g_active();

template <int I> struct St : FSM::State {
  void entryGuard(GuardControl& c) { vrec(1, I); guards_started = true; guard_act(c, I); }
  void exitGuard(GuardControl& c) { vrec(2, I); settle_firings();
    if (call_kind == CALL_CYCLE && !guards_started && n_fired > 0) {     // first round after the plan step: the pending request is the last task that fired
      VA(c.pendingTransition().origin == last_fo && c.pendingTransition().destination == last_fd, 810);     // origin as requester
#if PAYLOAD
      { const Pay* p = c.pendingTransition().payload(); VA((p != 0) == last_fhp, 707); if (p && last_fhp) VA(p->v == last_fpv && p->w == last_fpw, 707); }   // carrying the task's payload
#endif
    }
    guards_started = true; guard_act(c, I); }
  void enter(PlanControl& c) { vrec(3, I); VA(mon_active == -1, 110); mon_active = I; VA(g_active() == I, 112);
    if (EDITS && !passive && (nondet_u8() & 1)) do_append(c.plan()); }
  void reenter(PlanControl&) { vrec(4, I); VA(mon_active == I, 113); }
  void exit(PlanControl&) { vrec(5, I); VA(mon_active == I, 114); mon_active = -1;
    succ_must[I] = false; fail_must[I] = false; }                        // leaving a state may drop its reports
  void update(FullControl& c) { vrec(7, I); full_act(c, I, true); }
  void postUpdate(FullControl& c) { vrec(8, I); full_act(c, I, false); }
  void react(const int&, FullControl& c) { vrec(10, I); full_act(c, I, true); }
};
struct Rt : FSM::State {
  void update(FullControl& c) { vrec(27, 0); full_act(c, -1, false); }
  void postUpdate(FullControl&) { vrec(28, 0); phases_done = true; take_plan_step_snapshot(); }     // the last phase callback of update()
  void postReact(const int&, FullControl&) { vrec(31, 0); phases_done = true; take_plan_step_snapshot(); }
  void planSucceeded(FullControl& c) { vrec(41, 0); settle_firings(); n_psucc++;
    VA(call_kind == CALL_CYCLE && phases_done && !guards_started, 901);
    bool any = cyc_succ_calls > 0; for (int i = 0; i < NST; ++i) any = any || succ_may[i];
    VA(any, 902);                                                         // success is outstanding
    VA(mn == 0, 903);                                                     // and no task remains
    VA(ever_added, 904);                                                  // never on a machine to which no task has been added since activation
    if (EDITS && !passive && (nondet_u8() & 1)) { const bool aao = appended_after_outcome; do_append(c.plan()); appended_after_outcome = aao; }   // a handler may plan again: the clearing that follows the callback removes that too
    mn = 0; model_clear_reports(); }
  void planFailed(FullControl& c) { vrec(42, 0); settle_firings(); n_pfail++;
    VA(call_kind == CALL_CYCLE && phases_done && !guards_started, 901);
    bool any = cyc_fail_calls > 0; for (int i = 0; i < NST; ++i) any = any || fail_may[i];
    VA(any, 906);                                                         // a task failure is outstanding
    VA(ever_added, 904);
    VA(n_fired == 0, 905);
    if (EDITS && !passive && (nondet_u8() & 1)) { const bool aao = appended_after_outcome; do_append(c.plan()); appended_after_outcome = aao; }   // a handler may plan again: the clearing that follows the callback removes that too
    mn = 0; model_clear_reports(); }
};

static int g_active() { return g->activeStateId(); }
template <int base> static void compare_plan_with_model() {      // (template: assertion ids must be compile-time constants)
#ifdef NOCOMPARE
  return;
#endif
  int i = 0; auto pl = g->plan();
  for (auto it = pl.begin(); it; ++it) {
    VA(i < mn, base);
    if (i < mn) { VA(it->origin == mo[i] && it->destination == md[i], base + 1);
#if PAYLOAD
      VA((it->payload() != 0) == mhp[i], base + 2); if (it->payload() && mhp[i]) VA(it->payload()->v == mpv[i] && it->payload()->w == mpw[i], base + 2);
#endif
    }
    ++i; if (i > CAP) break; }
  VA(i == mn, base + 3);
}

static void begin_cycle() { fired_at_right_time = fired_before_failed = true; nf_raw = 0; call_kind = CALL_CYCLE; call_before = mon_active; phases_done = guards_started = false; cyc_succ_calls = cyc_fail_calls = 0;
  n_fired = 0; n_psucc = n_pfail = 0; appended_after_outcome = false; ps_taken = false; }
static void end_cycle() {
  settle_firings();
  VA(g->activeStateId() == (mon_active < 0 ? INV : mon_active), 120);
  VA(n_psucc + n_pfail <= 1, 907);                                        // at most one of them per cycle
  if ((n_psucc || n_pfail) && !appended_after_outcome) { VA(!g->plan(), 908); }     // after either callback the plan is empty
  if (n_fired > 0 && !(n_psucc || n_pfail)) { /* non-cyclic firing consumes the report at the end of the scan */
    if (last_fo < NST) { succ_may[last_fo] = false; succ_must[last_fo] = false; } }
  if (ps_taken) {
    // converse clauses, judged on the model as it stood when the plan step began
    if (ps_mn > 0 && ps_fail_active) VA(n_pfail == 1, 909);               // plan non-empty and the active state reports failure => planFailed() in this cycle
    if (ps_mn > 0 && ps_head_o == call_before && ps_succ_active && !ps_any_fail) VA(n_fired >= 1, 811);   // first task's origin active with a success report and no failure reports => it fires
  }
  compare_plan_with_model<820>();                                           // unfired tasks stay, in their original order
#if PREFIX
  if (n_fired) vwitness(9004);
#ifdef WITNESS_EXTRA
  if (n_psucc) vwitness(9002); if (n_pfail) vwitness(9003);
#if CAP >= 2
  if (n_fired >= 2) vwitness(9005);
#endif
#endif
#endif
  call_kind = CALL_NONE;
}

extern "C" int harness(void) {
  union Slot { Inst obj; unsigned char bytes[sizeof(Inst)]; Slot() {} ~Slot() {} };
  Slot slot;
#ifndef NOPREFILL
  nondet_fill(slot.bytes, sizeof(Inst));                       // every prior content of the memory (F6)
#endif
  Logger lg;
  g = &slot.obj; call_kind = CALL_OTHER; passive = PREFIX;
  Inst* m = new (&slot.obj) Inst(&lg);
#if MANUAL
  m->enter();
#endif
  VA(mon_active == 0, 100);
  compare_plan_with_model<830>();
#if PREFIX
  // reachable-by-construction arbitrary state: any plan content, any reports, any active state
  for (int k = 0; k < CAP; ++k) if (nondet_u8() & 1) do_append(m->plan());
  for (int i = 0; i < NST; ++i) { unsigned char r = nondet_u8(); if (r & 1) { m->succeed(i); note_succeed(i); } if (r & 2) { m->fail(i); note_fail(i); } }
  { int a = nondet_below(NST); exp_tr = true; m->immediateChangeTo(a); exp_tr = false; }
  passive = false;
  compare_plan_with_model<830>();
#endif
  for (int s = 0; s < KSTEPS; ++s) {
    unsigned char op = nondet_u8();
    if (op == 0 && (OPS & 1)) { begin_cycle(); m->update(); end_cycle(); }
    else if (op == 1 && (OPS & 2)) { int ev = 5; begin_cycle(); m->react(ev); end_cycle(); }
    else { call_kind = CALL_OTHER; n_fired = 0; n_psucc = n_pfail = 0; nf_raw = 0; fired_at_right_time = fired_before_failed = true;
      if (!(OPS & 4)) op = 99;
      if (op == 2) do_append(m->plan());
      else if (op == 3) { int id = nondet_below(NST); m->succeed(id); note_succeed(id); }
      else if (op == 4) { int id = nondet_below(NST); m->fail(id); note_fail(id); }
      else if (op == 5) { m->plan().clear(); mn = 0; model_clear_reports(); }
      else if (op == 6) { int p = nondet_u8(); int i = 0; auto pl = m->plan();
        for (auto it = pl.begin(); it; ++it) { if (i == p) it.remove(); ++i; if (i > CAP) break; }
        if (p < mn) { for (int k = 0; k < CAP; ++k) if (k >= p && k + 1 < mn) { mo[k] = mo[k + 1]; md[k] = md[k + 1];
#if PAYLOAD
          mhp[k] = mhp[k + 1]; mpv[k] = mpv[k + 1]; mpw[k] = mpw[k + 1];
#endif
          } mn--; } }
      else if (op == 7) { int d = nondet_below(NST); exp_tr = true; m->changeTo(d); exp_tr = false; }
      else if (op == 8) { int d = nondet_below(NST); exp_tr = true; m->immediateChangeTo(d); exp_tr = false; }
#if MANUAL
      else if (op == 9) { passive = true; m->exit(); m->enter(); passive = false;      // deactivate and re-activate: a fresh activation
        mn = 0; model_clear_reports(); ever_added = false; }
#endif
      settle_firings();
      VA(n_fired == 0 && n_psucc + n_pfail == 0, 812);                      // nothing fires and no outcome outside update()/react()
      VA(g->activeStateId() == (mon_active < 0 ? INV : mon_active), 120);
      compare_plan_with_model<840>();
      call_kind = CALL_NONE; }
  }
  vwitness(9001);
  call_kind = CALL_OTHER;
#if MANUAL
  passive = true; m->exit();
#endif
  m->~Inst();
  VA(mon_active == -1, 140);
  return 0;
}

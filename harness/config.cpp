// C19 solver part: a feature-NEUTRAL scenario (transitions, guards, update, react only) is encoded under two
// configurations (or two header variants) and run on the same choice stream by rt/product_rt.c; enabling a feature
// the program does not use must not change its callback trace or observers.
#include "vrt.h"
#include <ffsm2/machine.hpp>
#ifndef KSTEPS
#define KSTEPS 2
#endif
#ifndef MANUAL
#define MANUAL 0
#endif
#ifndef PAYLOAD
#define PAYLOAD 0
#endif
// USE_*: the program itself uses that feature (then BOTH sides are built with it and differ in OTHER, unused switches)
#ifndef USE_SERIAL
#define USE_SERIAL 0
#endif
#ifndef USE_HISTORY
#define USE_HISTORY 0
#endif
#ifndef USE_PLANS
#define USE_PLANS 0
#endif
#define NST 3
#define VCAT2(a, b) a##b
#define VCAT(a, b) VCAT2(a, b)
#ifndef VERIF_PREFIX
#define VERIF_PREFIX
#endif
extern "C" { void pr_step(unsigned s); unsigned char pr_draw(void); unsigned char pr_below(unsigned char n); void pr_rec(unsigned e); }
struct Pay { unsigned short v; };
namespace cfg {
#if USE_PLANS
using C0 = ffsm2::Config::SubstitutionLimitN<2>::TaskCapacityN<1>;
#else
using C0 = ffsm2::Config::SubstitutionLimitN<2>;
#endif
#if MANUAL
using C1 = C0::ManualActivation;
#else
using C1 = C0;
#endif
#if PAYLOAD
using C2 = C1::PayloadT<Pay>;
#else
using C2 = C1;
#endif
}
using M = ffsm2::MachineT<cfg::C2>;
template <int I> struct St; struct Rt;
using FSM = M::Root<Rt, St<0>, St<1>, St<2>>;
typedef FSM::Instance Inst;
// the user's own data inside the state objects: every byte starts as `fillv` (drawn once per run, the same on both
// sides) and no library call may ever change it - enabling a switch the program does not use included
static unsigned char fillv; static unsigned char refdata[40];
static void observe_data(const Inst& m);
template <typename TC> static void act(TC& c) {
  unsigned char k = pr_draw();
  if ((k & 3) == 1) c.changeTo(pr_below(NST));
#if PAYLOAD
  else if ((k & 3) == 2) { Pay p; p.v = pr_draw(); c.changeWith(pr_below(NST), p); }
#endif
}
template <int I> struct St : FSM::State {
  unsigned char data[8]; St() { __builtin_memset(data, fillv, sizeof data); }
  void entryGuard(GuardControl& c) { pr_rec(0x10 + I); unsigned char k = pr_draw(); if (k & 1) c.cancelPendingTransition(); if (k & 2) c.changeTo(pr_below(NST));
#if PAYLOAD
    pr_rec(c.pendingTransition().payload() ? (c.pendingTransition().payload()->v & 0x7F) : 0xAA);
#endif
  }
  void exitGuard(GuardControl& c) { pr_rec(0x60 + I); unsigned char k = pr_draw(); if (k & 1) c.cancelPendingTransition(); }
  void enter(PlanControl&) { pr_rec(0x20 + I); }
  void reenter(PlanControl&) { pr_rec(0x30 + I); }
  void exit(PlanControl&) { pr_rec(0x40 + I); }
  void update(FullControl& c) { pr_rec(0x50 + I); act(c); }
  void react(const int& e, FullControl& c) { pr_rec(0x70 + I + 4 * (e & 1)); act(c); }
};
struct Rt : FSM::State { unsigned char ledger[40]; Rt() { __builtin_memset(ledger, fillv, sizeof ledger); }
  void enter(PlanControl&) { pr_rec(0xE2); } void update(FullControl& c) { pr_rec(0xE3); act(c); } void exit(PlanControl&) { pr_rec(0xE4); }
#if USE_PLANS
  void planSucceeded(FullControl&) { pr_rec(0xE5); } void planFailed(FullControl&) { pr_rec(0xE6); }
#endif
};
static void observe_data(const Inst& m) {
  int ok = vmem_equal(m.access<Rt>().ledger, refdata, 40) != 0;
  ok = ok && vmem_equal(m.access<St<0> >().data, refdata, 8) && vmem_equal(m.access<St<1> >().data, refdata, 8) && vmem_equal(m.access<St<2> >().data, refdata, 8);
  pr_rec(0xD0 + (ok ? 1 : 0));
}
static void observe(const Inst& m) {
  observe_data(m);
#if MANUAL
  pr_rec(0x80 + (m.isActive() ? 1 : 0));
#endif
  pr_rec(0x90 + (m.activeStateId() & 15)); pr_rec(m.isActive(1) ? 0xB1 : 0xB0);
#if USE_HISTORY
  pr_rec(m.previousTransition().destination); pr_rec(m.previousTransition().origin);
#endif
#if USE_PLANS
  { int n = 0; auto pl = m.plan(); for (auto it = pl.begin(); it; ++it) { pr_rec(0xC0 + it->origin * 4 + it->destination); if (++n > 2) break; } }
#endif
}
extern "C" void VCAT(VERIF_PREFIX, scenario)(void) {
  fillv = pr_draw(); __builtin_memset(refdata, fillv, sizeof refdata);
  Inst m;
  observe(m);
#if USE_SERIAL
  Inst::SerialBuffer saved; bool have = false;
#if !MANUAL
  { const Inst& cm = m; cm.save(saved); have = true; }      // a snapshot of the initial state is always at hand
#endif
#endif
  for (int s = 0; s < KSTEPS; ++s) {
    pr_step(s + 1);
    unsigned char op = pr_draw() % 8;
#if MANUAL
    if (!m.isActive()) { m.enter(); observe(m); continue; }
    if (op == 4) { m.exit(); observe(m); continue; }
#endif
    if (op == 0) m.update();
    else if (op == 1) { int e = pr_draw(); m.react(e); }
    else if (op == 2) m.changeTo(pr_below(NST));
    else if (op == 3) m.immediateChangeTo(pr_below(NST));
#if PAYLOAD
    else if (op == 4) { Pay p; p.v = pr_draw(); m.immediateChangeWith(pr_below(NST), p); }
#endif
#if USE_SERIAL
    else if (op == 5) { const Inst& cm = m; cm.save(saved); have = true; pr_rec(saved.data()[0]); }
    else if (op == 6 && have) { m.load(saved); }
#endif
#if USE_HISTORY
    else if (op == 7) { m.replayTransition(pr_below(NST)); }
#endif
#if USE_PLANS
    else if (op == 5 && !USE_SERIAL) { bool ok = m.plan().change(pr_below(NST), pr_below(NST)); pr_rec(ok ? 0xF1 : 0xF0); }
    else if (op == 6 && !USE_SERIAL) { m.succeed(pr_below(NST)); }
#endif
    observe(m);
  }
  pr_step(KSTEPS + 1);
#if MANUAL
  if (m.isActive()) m.exit();
  observe_data(m);                       // the state objects outlive deactivation
#endif
}

"""Per-property job tables (DESIGN.md section 5).  A job = one harness build + one CBMC run."""
import os, re, json
import engine
from engine import Job

COMMON_ASSUMPTIONS = [
    'state ids passed to the API are < N (FFSM2_ASSERT in the library)',
    'update/react/query/changeTo/... are called only while the machine is active, enter() only while inactive, exit() only while active',
    'user callbacks do not throw and do not re-enter the machine except through the control object they are handed',
    'clang-14 -O1 IR (x86-64) is the encoded artefact; the translator is validated per run against the native g++ build on pseudo-random choice streams',
    'nondet stubs: nondet_u8/u32/below/fill return arbitrary values; vrec is a no-op; no other stubs (the library has no I/O, clock or allocation)',
]

def sl(n): return ','.join('St<%d>' % i for i in range(n))

def mjob(name, prop, N=3, L=4, K=2, unwind=None, timeout=300, **defs):
    d = dict(NSTATES=N, STATE_LIST=sl(N), LIMIT=L, KSTEPS=K, PROP=prop)
    d.update(defs)
    plen = {6: 3, 7: 5, 8: 7, 10: 24, 11: 16, 14: 3, 15: 3, 16: 3}.get(int(d.get('PAYLOAD', 0) or 0), 0)
    return Job(name, 'machine.cpp', d, unwind=unwind or max(8, L + 4, N + 2, plen + 2), unwindset={'nondet_fill.0': 200}, timeout=timeout, prop=(prop * 100, prop * 100 + 99))

HIST = dict(FFSM2_ENABLE_TRANSITION_HISTORY='')
SER = dict(FFSM2_ENABLE_SERIALIZATION='')
CORE = 1 | 8 | 16          # update, changeTo, immediateChangeTo
EVENTS = 2 | 4 | 8         # react, query, changeTo
ALLOPS = 0xFFFF

def c01_jobs(tier, prop=1):
    T = 300 if tier == 'quick' else 1500
    J = []
    if tier == 'quick':
        J.append(mjob('m-n1-k3', prop, N=1, K=3, OPS=CORE, timeout=T))
        J.append(mjob('m-n2-k3', prop, N=2, K=3, OPS=CORE, timeout=T))
        J.append(mjob('m-n3-k3', prop, N=3, K=3, OPS=CORE, timeout=T))
        J.append(mjob('m-n3-k2-events', prop, N=3, K=2, OPS=EVENTS | 1, timeout=T))
        J.append(mjob('m-n3-k2-head', prop, N=3, K=2, HEAD=1, OPS=CORE, timeout=T))
        J.append(mjob('m-n3-k2-manual', prop, N=3, K=2, MANUAL=1, OPS=CORE | 128, timeout=T))
        J.append(mjob('m-n3-l2-k2-manual-head', prop, N=3, L=2, K=2, MANUAL=1, HEAD=1, OPS=CORE | 128, timeout=T))
        J.append(mjob('m-n3-l2-k2-payload', prop, N=3, L=2, K=2, PAYLOAD=5, OPS=CORE, timeout=T))
        J.append(mjob('m-n3-l2-k3-replay-saveload', prop, N=3, L=2, K=3, MANUAL=1, OPS=1 | 16 | 32 | 64 | 128, timeout=T, **dict(HIST, **SER)))
        J.append(mjob('m-n4-ind', prop, N=4, K=1, INDUCTIVE=1, OPS=ALLOPS, timeout=T, **HIST))
        J.append(mjob('m-n3-ind-head', prop, N=3, K=1, INDUCTIVE=1, HEAD=1, OPS=ALLOPS, timeout=T))
        J.append(mjob('m-n3-l2-k2-injected', prop, N=3, L=2, K=2, INJECT=1, OPS=CORE, timeout=T))
        J.append(mjob('m-n2-l2-k2-injected-head-manual', prop, N=2, L=2, K=2, INJECT=1, HEAD=1, MANUAL=1, OPS=CORE | 128, timeout=T))
        J.append(mjob('m-n4-k4', prop, N=4, K=4, OPS=CORE, timeout=T))
        J.append(mjob('m-n5-k3', prop, N=5, K=3, OPS=CORE, timeout=T))
        J.append(mjob('m-n3-l1-k4', prop, N=3, L=1, K=4, OPS=CORE, timeout=T))
        J.append(mjob('m-n3-l6-k3', prop, N=3, L=6, K=3, OPS=CORE, timeout=T))
        J.append(mjob('m-n3-k3-events-head', prop, N=3, K=3, HEAD=1, OPS=EVENTS | 1, timeout=T))
        J.append(mjob('m-n3-l2-k3-all', prop, N=3, L=2, K=3, MANUAL=1, HEAD=1, PAYLOAD=3, OPS=ALLOPS, timeout=T, **dict(HIST, **SER)))
        J.append(mjob('m-n5-ind-head-manual', prop, N=5, K=1, INDUCTIVE=1, HEAD=1, MANUAL=1, OPS=ALLOPS, timeout=T))
        J.append(mjob('m-n3-k3-relocate', prop, N=3, K=3, OPS=CORE | 256, timeout=T))
        J.append(mjob('m-n3-l2-k3-relocate-manual-head-payload', prop, N=3, L=2, K=3, MANUAL=1, HEAD=1, PAYLOAD=5, OPS=CORE | 128 | 256, timeout=T, **HIST))
    else:
        J.append(mjob('m-n3-k4-relocate', prop, N=3, K=4, OPS=CORE | 256, timeout=T))
        J.append(mjob('m-n3-k3-relocate-manual-head-payload', prop, N=3, K=3, MANUAL=1, HEAD=1, PAYLOAD=5, OPS=CORE | 128 | 256, timeout=T, **HIST))
        for n in (1, 2, 3, 4, 5):
            J.append(mjob('m-n%d-k4' % n, prop, N=n, K=4, OPS=CORE, timeout=T))
        for l in (1, 2, 6):
            J.append(mjob('m-n3-l%d-k4' % l, prop, N=3, L=l, K=4, OPS=CORE, timeout=T))
        J.append(mjob('m-n3-k6', prop, N=3, K=6, OPS=CORE, timeout=T))
        J.append(mjob('m-n3-k3-events', prop, N=3, K=3, OPS=EVENTS | 1, timeout=T))
        J.append(mjob('m-n3-k3-events-head', prop, N=3, K=3, HEAD=1, OPS=EVENTS | 1, timeout=T))
        J.append(mjob('m-n3-k4-head', prop, N=3, K=4, HEAD=1, OPS=CORE, timeout=T))
        J.append(mjob('m-n4-k4-manual', prop, N=4, K=4, MANUAL=1, OPS=CORE | 128, timeout=T))
        J.append(mjob('m-n3-k4-manual-head', prop, N=3, K=4, MANUAL=1, HEAD=1, OPS=CORE | 128, timeout=T))
        J.append(mjob('m-n3-k3-payload', prop, N=3, K=3, PAYLOAD=5, OPS=CORE, timeout=T))
        J.append(mjob('m-n3-k4-replay-saveload', prop, N=3, K=4, MANUAL=1, OPS=1 | 16 | 32 | 64 | 128, timeout=T, **dict(HIST, **SER)))
        J.append(mjob('m-n3-k3-all', prop, N=3, K=3, MANUAL=1, HEAD=1, PAYLOAD=3, OPS=ALLOPS, timeout=T, **dict(HIST, **SER)))
        J.append(mjob('m-n3-k3-injected', prop, N=3, K=3, INJECT=1, OPS=CORE, timeout=T))
        J.append(mjob('m-n3-k3-injected-head-manual-payload', prop, N=3, K=3, INJECT=1, HEAD=1, MANUAL=1, PAYLOAD=5, OPS=CORE | 128, timeout=T, **HIST))
        J.append(mjob('m-n4-ind-injected', prop, N=4, K=1, INJECT=1, INDUCTIVE=1, OPS=ALLOPS, timeout=T, **HIST))
        for n in (1, 2, 3, 4, 5):
            J.append(mjob('m-n%d-ind' % n, prop, N=n, K=1, INDUCTIVE=1, OPS=ALLOPS, timeout=T, **HIST))
            J.append(mjob('m-n%d-ind-head-manual' % n, prop, N=n, K=1, INDUCTIVE=1, HEAD=1, MANUAL=1, OPS=ALLOPS, timeout=T))
    return J

def c04_jobs(tier):
    T = 300 if tier == 'quick' else 1500
    J = []
    Ls = (1, 2, 3, 4, 6) if tier == 'quick' else (1, 2, 3, 4, 5, 6, 7, 8)
    for l in Ls:
        k = 2 if l <= 4 else 1
        J.append(mjob('m-n3-l%d' % l, 4, N=3, L=l, K=k, OPS=CORE, timeout=T))
        J.append(mjob('m-n2-l%d-pingpong' % l, 4, N=2, L=l, K=k, OPS=CORE, PINGPONG=1, timeout=T))
    J.append(mjob('m-n3-l2-manual-head', 4, N=3, L=2, K=2, MANUAL=1, HEAD=1, OPS=CORE | 128, timeout=T))
    J.append(mjob('m-n3-l4-pingpong-head', 4, N=3, L=4, K=2, HEAD=1, OPS=CORE, PINGPONG=1, timeout=T))
    J.append(mjob('m-n3-l2-ind', 4, N=3, L=2, K=1, INDUCTIVE=1, OPS=ALLOPS, timeout=T))
    if tier != 'quick':
        J.append(mjob('m-n4-l4-k3', 4, N=4, L=4, K=3, OPS=CORE, timeout=T))
        J.append(mjob('m-n3-l4-k3-pingpong-manual', 4, N=3, L=4, K=3, MANUAL=1, OPS=CORE | 128, PINGPONG=1, timeout=T))
        J.append(mjob('m-n5-l4-ind', 4, N=5, L=4, K=1, INDUCTIVE=1, OPS=ALLOPS, timeout=T))
        J.append(mjob('m-n3-l3-events-payload', 4, N=3, L=3, K=2, PAYLOAD=3, OPS=EVENTS | 1 | 16, timeout=T))
    return J

def c05_jobs(tier):
    T = 300 if tier == 'quick' else 1500
    J = []
    PH = 1 | 2 | 4 | 8          # update, react, query, changeTo
    if tier == 'quick':
        for evt in (0, 1, 2): J.append(mjob('m-n3-evt%d' % evt, 5, N=3, K=2, EVT=evt, OPS=PH, timeout=T))
        J.append(mjob('m-n3-head-evt0', 5, N=3, K=2, HEAD=1, EVT=0, OPS=PH, timeout=T))
        J.append(mjob('m-n2-head-evt2', 5, N=2, K=2, HEAD=1, EVT=2, OPS=PH, timeout=T))
        J.append(mjob('m-n1-evt1', 5, N=1, K=2, EVT=1, OPS=PH, timeout=T))
        J.append(mjob('m-n4-ind-head', 5, N=4, K=1, INDUCTIVE=1, HEAD=1, OPS=PH | 16, timeout=T))
        J.append(mjob('m-n3-manual', 5, N=3, K=2, MANUAL=1, OPS=PH | 128, timeout=T))
        J.append(mjob('m-n3-l2-head-plans-k1', 5, N=3, L=2, K=1, HEAD=1, OPS=3, timeout=T, FFSM2_ENABLE_PLANS=''))
        J.append(mjob('m-n2-l2-plans-evt1-k1', 5, N=2, L=2, K=1, EVT=1, OPS=3, timeout=T, FFSM2_ENABLE_PLANS=''))
        J.append(mjob('m-n3-relocate', 5, N=3, K=3, OPS=PH | 256, timeout=T))
        J.append(mjob('m-n3-head-evt1-relocate', 5, N=3, K=2, HEAD=1, EVT=1, OPS=PH | 256, timeout=T))
    else:
        J.append(mjob('m-n3-relocate-k4', 5, N=3, K=4, OPS=PH | 256, timeout=T))
        J.append(mjob('m-n4-head-evt1-relocate-k3', 5, N=4, K=3, HEAD=1, EVT=1, OPS=PH | 256, timeout=T))
        for evt in (0, 1, 2):
            for head in (0, 1):
                J.append(mjob('m-n3-evt%d-head%d-k3' % (evt, head), 5, N=3, K=3, EVT=evt, HEAD=head, OPS=PH, timeout=T))
        for n in (1, 2, 4, 5):
            J.append(mjob('m-n%d-k3' % n, 5, N=n, K=3, OPS=PH, timeout=T))
            J.append(mjob('m-n%d-ind-head' % n, 5, N=n, K=1, INDUCTIVE=1, HEAD=1, OPS=PH | 16, timeout=T))
        J.append(mjob('m-n3-manual-head-payload', 5, N=3, K=3, MANUAL=1, HEAD=1, PAYLOAD=3, OPS=PH | 16 | 128, timeout=T))
        for n in (1, 2, 3, 4):
            J.append(mjob('m-n%d-l2-head-plans-k2' % n, 5, N=n, L=2, K=2, HEAD=1, OPS=PH, timeout=T, FFSM2_ENABLE_PLANS=''))
            J.append(mjob('m-n%d-l2-plans-k2' % n, 5, N=n, L=2, K=2, HEAD=0, EVT=n % 3, OPS=PH, timeout=T, FFSM2_ENABLE_PLANS=''))
    return J

def c06_jobs(tier):
    T = 400 if tier == 'quick' else 1800
    J = []
    if tier == 'quick':
        for ctx in (1, 2, 3): J.append(mjob('m-n3-ctx%d' % ctx, 6, N=3, K=1, CONTEXT=ctx, HEAD=1, OPS=ALLOPS, timeout=T))
        J.append(mjob('m-n3-k2', 6, N=3, K=2, OPS=CORE, timeout=T))
        J.append(mjob('m-n2-k2-events-head', 6, N=2, K=2, HEAD=1, OPS=EVENTS | 1, timeout=T))
        J.append(mjob('m-n3-ind', 6, N=3, K=1, INDUCTIVE=1, OPS=ALLOPS, timeout=T))
        J.append(mjob('m-n3-manual-payload', 6, N=3, K=2, MANUAL=1, PAYLOAD=3, OPS=CORE | 128, timeout=T))
    else:
        for ctx in (1, 2, 3):
            J.append(mjob('m-n3-ctx%d-k2' % ctx, 6, N=3, K=2, CONTEXT=ctx, HEAD=1, OPS=ALLOPS, timeout=T))
            J.append(mjob('m-n4-ctx%d-ind' % ctx, 6, N=4, K=1, CONTEXT=ctx, INDUCTIVE=1, HEAD=1, OPS=ALLOPS, timeout=T))
        for n in (1, 2, 3, 4, 5): J.append(mjob('m-n%d-k3' % n, 6, N=n, K=3, OPS=CORE, timeout=T))
        J.append(mjob('m-n3-k3-events-head', 6, N=3, K=3, HEAD=1, OPS=EVENTS | 1, timeout=T))
        J.append(mjob('m-n3-k3-manual-payload', 6, N=3, K=3, MANUAL=1, PAYLOAD=3, OPS=CORE | 128, timeout=T))
        J.append(mjob('m-n3-k3-history-serial', 6, N=3, K=3, MANUAL=1, OPS=ALLOPS, timeout=T, **dict(HIST, **SER)))
    return J

def c07_jobs(tier):
    T = 400 if tier == 'quick' else 1800
    J = []
    kinds = (1, 2, 3, 4, 5, 6) if tier == 'quick' else tuple(range(1, 17))
    L = 2 if tier == 'quick' else 4
    for k in kinds:
        J.append(mjob('m-n3-l%d-pay%d' % (L, k), 7, N=3, L=L, K=2, PAYLOAD=k, OPS=CORE, timeout=T, **HIST))
    J.append(mjob('m-n2-l2-pay5-head-manual', 7, N=2, L=2, K=2, PAYLOAD=5, HEAD=1, MANUAL=1, OPS=CORE | 128, timeout=T, **HIST))
    J.append(mjob('m-n3-pay3-ind', 7, N=3, K=1, PAYLOAD=3, INDUCTIVE=1, OPS=ALLOPS, timeout=T, **HIST))
    J.append(mjob('m-n3-l2-pay5-relocate', 7, N=3, L=2, K=3 if tier == 'quick' else 4, PAYLOAD=5, OPS=CORE | 256, timeout=T, **HIST))
    if tier != 'quick':
        J.append(mjob('m-n3-pay5-k3-events', 7, N=3, K=3, PAYLOAD=5, OPS=EVENTS | 1 | 16, timeout=T, **HIST))
        J.append(mjob('m-n4-l2-pay9-k2', 7, N=4, L=2, K=2, PAYLOAD=9, OPS=CORE, timeout=T, **HIST))
    return J

def c11_machine_jobs(tier):
    T = 400 if tier == 'quick' else 1800
    J = []
    RP = CORE | 32
    if tier == 'quick':
        J.append(mjob('m-n3-k3', 11, N=3, K=3, OPS=RP, timeout=T, **HIST))
        J.append(mjob('m-n3-k2-head-payload', 11, N=3, K=2, HEAD=1, PAYLOAD=5, OPS=RP, timeout=T, **HIST))
        J.append(mjob('m-n3-k3-manual', 11, N=3, K=3, MANUAL=1, OPS=RP | 128, timeout=T, **HIST))
        J.append(mjob('m-n4-ind', 11, N=4, K=1, INDUCTIVE=1, OPS=ALLOPS, timeout=T, **HIST))
        J.append(mjob('m-n4-k4', 11, N=4, K=4, OPS=RP, timeout=T, **HIST))
        J.append(mjob('m-n5-ind', 11, N=5, K=1, INDUCTIVE=1, OPS=ALLOPS, timeout=T, **HIST))
        J.append(mjob('m-n3-l2-k2-injected', 11, N=3, L=2, K=2, INJECT=1, OPS=RP, timeout=T, **HIST))
        J.append(mjob('m-n3-l2-k2-relocate-payload', 11, N=3, L=2, K=2, PAYLOAD=3, OPS=RP | 256, timeout=T, **HIST))
    else:
        J.append(mjob('m-n3-l2-k3-relocate-payload', 11, N=3, L=2, K=3, PAYLOAD=3, OPS=RP | 256, timeout=T, **HIST))
        for n in (1, 2, 3, 4): J.append(mjob('m-n%d-k4' % n, 11, N=n, K=4, OPS=RP, timeout=T, **HIST))
        J.append(mjob('m-n3-k3-head-payload', 11, N=3, K=3, HEAD=1, PAYLOAD=5, OPS=RP, timeout=T, **HIST))
        J.append(mjob('m-n3-k4-manual', 11, N=3, K=4, MANUAL=1, OPS=RP | 128, timeout=T, **HIST))
        for n in (2, 3, 4, 5): J.append(mjob('m-n%d-ind' % n, 11, N=n, K=1, INDUCTIVE=1, OPS=ALLOPS, timeout=T, **HIST))
    return J

def c13_jobs(tier):
    J = []
    T = 300 if tier == 'quick' else 1200
    def kj(name, **d):
        cap = d.get('CAP', 255)
        return Job(name, 'bitstream.cpp', d, unwind=max(50, (cap + 7) // 8 + 3), unwindset={'nondet_fill.0': 40}, timeout=T, prop=(1300, 1399))
    for w in range(1, 33): J.append(kj('bs-w%d' % w, W=w, CAP=255, MODE=0))
    caps = (1, 7, 8, 9, 33) if tier == 'quick' else (1, 2, 7, 8, 9, 15, 16, 17, 31, 32, 33, 63, 64, 65, 127, 128, 129, 254)
    for cap in caps:
        for w in sorted(set(x for x in (1, 2, 7, 8, 9, 16, 17, 32) if x <= cap)):
            if tier == 'quick' and w not in (1, 8, 9, 32) and cap != 33: continue
            J.append(kj('bs-cap%d-w%d' % (cap, w), W=w, CAP=cap, MODE=0))
    J.append(kj('bitwidth', MODE=1))
    pairs = ((1, 1), (3, 13), (8, 8), (13, 32), (32, 32), (7, 9)) if tier == 'quick' else tuple((a, b) for a in (1, 3, 7, 8, 9, 13, 16, 17, 31, 32) for b in (1, 5, 8, 11, 16, 24, 32))
    for a, b in pairs: J.append(kj('bs-seq-%d-%d' % (a, b), W=a, W2=b, CAP=255, MODE=2))
    return J

BOUNDARY_CAPS = (1, 2, 7, 8, 9, 15, 16, 17, 31, 32, 33, 63, 64, 65, 127, 128, 129, 254, 255)

def api_probe(tier, work):
    """Regeneration step (not a solver verdict): the public-interface probe must compile with access control on."""
    variants, _ = engine.header_variants(work)
    out = dict(violations=[], inconclusive=[], report={})
    for vname, inc in variants:
        for cxx in ('g++', 'clang++-14'):
            rc, o, _ = engine.run([cxx, '-std=c++11', '-fsyntax-only', '-I', inc, os.path.join(engine.HARNESS, 'api_probe.cpp')], timeout=300)
            out['report']['api_probe %s %s' % (vname, cxx)] = 'compiles' if rc == 0 else 'DOES NOT COMPILE'
            if rc != 0:
                rp = os.path.join(engine.OUT, 'replay', 'C20-api_probe-%s-%s.json' % (vname, cxx)); os.makedirs(os.path.dirname(rp), exist_ok=True)
                json.dump(dict(property='C20', kind='compile', cmd=[cxx, '-std=c++11', '-fsyntax-only', '-I', inc, 'harness/api_probe.cpp'], output=o[-3000:]), open(rp, 'w'), indent=1)
                out['violations'].append(dict(label='api_probe:compile:%s' % cxx, replay=rp, job='api_probe', trace=o[-400:]))
    return out

def c20_jobs(tier):
    J = []
    T = 300 if tier == 'quick' else 1200
    caps = BOUNDARY_CAPS if tier == 'quick' else tuple(range(1, 256))
    def kj(name, cap, **d):
        d['CAP'] = cap
        return Job(name, 'containers.cpp', d, unwind=cap + 6, unwindset={'nondet_fill.0': 4 * cap + 16}, timeout=T, prop=(2000, 2099))
    for cap in caps:
        J.append(kj('bits-cap%d' % cap, cap, MODE=0))
    acaps = (1, 2, 7, 8, 9, 31, 32, 33, 127, 128, 254, 255) if tier == 'quick' else BOUNDARY_CAPS + (3, 4, 5, 6, 100, 200)
    for cap in acaps:
        et = (0,) if tier == 'quick' and cap > 33 else (0, 1, 2)
        for e in et:
            if cap * (4 if e == 1 else 3 if e == 2 else 1) > 800: continue
            J.append(kj('static-cap%d-e%d' % (cap, e), cap, MODE=1, ETYPE=e))
            if cap < 255: J.append(kj('dynamic-cap%d-e%d' % (cap, e), cap, MODE=2, ETYPE=e))
    return J

def c10_jobs(tier):
    J = []
    T = 300 if tier == 'quick' else 1500
    caps = (1, 2, 3, 4) if tier == 'quick' else (1, 2, 3, 4, 5, 6)
    def kj(name, cap, **d):
        d['CAP'] = cap
        return Job(name, 'tasklist.cpp', d, unwind=max(6, cap + 3), unwindset={'nondet_fill.0': 40 + 16 * cap}, timeout=T, prop=(1000, 1099))
    for cap in caps:
        for pay in (0, 1):
            J.append(kj('plan-ind-cap%d-p%d' % (cap, pay), cap, MODE=0, PAYLOAD=pay))
            J.append(kj('tasks-ind-cap%d-p%d' % (cap, pay), cap, MODE=2, PAYLOAD=pay))
        if cap <= (3 if tier == 'quick' else 4):
            k = cap + 2 if tier == 'quick' else cap + 3
            j = kj('plan-hist-cap%d-k%d' % (cap, k), cap, MODE=1, KSTEPS=k); j.unwind = max(j.unwind, k + 3); J.append(j)
            if cap <= 2 or tier != 'quick':
                j = kj('plan-hist-manual-cap%d-k%d' % (cap, k + 1), cap, MODE=1, KSTEPS=k + 1, MANUAL=1); j.unwind = max(j.unwind, k + 4); J.append(j)
    j = kj('plan-hist-serial-cap2-p1-k4', 2, MODE=1, PAYLOAD=1, SERIAL=1, KSTEPS=4); j.unwind = 8; J.append(j)
    if tier != 'quick':
        j = kj('plan-hist-cap3-pay', 3, MODE=1, PAYLOAD=1, KSTEPS=6); j.unwind = 10; J.append(j)
        j = kj('plan-hist-serial-manual-cap2-p1-k5', 2, MODE=1, PAYLOAD=1, SERIAL=1, MANUAL=1, KSTEPS=5); j.unwind = 9; j.mem_gb = 24; j.weight_gb = 12; J.append(j)
        j = kj('plan-hist-serial-cap2-p0-k5', 2, MODE=1, PAYLOAD=0, SERIAL=1, KSTEPS=5); j.unwind = 9; J.append(j)
    return J

NSET = (1, 2, 3, 4, 5, 7, 8, 9, 15, 16, 17, 31, 32, 33, 63, 64, 65, 127, 128, 129, 254, 255)

def c14_jobs(tier):
    J = []
    ns = NSET if tier == 'quick' else tuple(range(1, 256))
    for n in ns:
        heads = (0, 1) if (n <= 9 or n in (64, 255) or (tier != 'quick' and n in NSET)) else (n % 2,)
        for head in heads:
            stages = 3 if (n <= 65 or tier != 'quick') else 1
            j = Job('disp-n%d-h%d-s%d' % (n, head, stages), 'dispatch.cpp', dict(NSTATES=n, STATE_LIST=sl(n), HEAD=head, STAGES=stages), unwind=6,
                    timeout=900 if tier == 'quick' else 3000, mem_gb=16, prop=(1400, 1499), seeds=20)
            j.weight_gb = 0.3 + n * n * 4.5 / (255 * 255) * (stages / 3.0 + 0.2)
            J.append(j)
    # requests issued on behalf of plan tasks (plans enabled, payload machine and payload-free machine)
    for n in ((2, 3, 5) if tier == 'quick' else (1, 2, 3, 4, 5, 7, 8, 9, 16, 17)):
        for pay in (0, 1):
            j = Job('disp-plan-n%d-p%d' % (n, pay), 'dispatch.cpp', dict(NSTATES=n, STATE_LIST=sl(n), HEAD=n % 2, STAGES=3, PAYLOAD=pay, FFSM2_ENABLE_PLANS=''), unwind=max(8, n + 3),
                    timeout=900 if tier == 'quick' else 3000, mem_gb=16, prop=(1400, 1499), seeds=20)
            J.append(j)
    return J

def c15_jobs(tier):
    J = []
    for k in (0, 1, 2, 3):
        for pos in (0, 1, 2):
            ks = 3 if tier == 'quick' else 5
            J.append(Job('inj-k%d-pos%d' % (k, pos), 'inject.cpp', dict(NINJ=k, POS=pos, KSTEPS=ks), unwind=16, timeout=600 if tier == 'quick' else 2400, prop=(1500, 1599)))
    return J

def product_job(name, harness, common, a_defs, b_defs, ids, prop, unwind=40, timeout=600, steps=8, nch=12, ntr=28, **kw):
    j = Job(name, harness, common, unwind=unwind, unwindset={'nondet_fill.0': steps * nch + 2, 'harness.0': ntr + 2, 'harness.1': steps + 2}, timeout=timeout, prop=prop,
            product=[('A_', a_defs), ('B_', b_defs)], extra_c=['product_rt.c'], **kw)
    j.c_defines = dict(PR_ID_LEN=ids[0], PR_ID_EVT=ids[1], PR_STEPS=steps, PR_NCH=nch, PR_NTR=ntr)
    return j

def c16_jobs(tier):
    J = []
    T = 600 if tier == 'quick' else 2400
    K = 2 if tier == 'quick' else 3
    for mode in (1, 2):
        for head in (0, 1):
            J.append(Job('log-faithful-m%d-h%d-k%d' % (mode, head, K), 'logger.cpp', dict(ROLE=0, LOGMODE=mode, HEAD=head, KSTEPS=K), unwind=K + 3, timeout=T, prop=(1600, 1699)))
    for mode in (1, 2):
        J.append(product_job('log-product-none-vs-m%d-k%d' % (mode, K), 'logger.cpp', dict(ROLE=1, HEAD=1, KSTEPS=K), dict(LOGMODE=0), dict(LOGMODE=mode),
                             (1650, 1651), (1600, 1699), unwind=max(K + 3, 6), timeout=T, steps=K + 2, nch=14, ntr=28))
    J.append(Job('log-faithful-m1-h1-k%d-manual' % K, 'logger.cpp', dict(ROLE=0, LOGMODE=1, HEAD=1, KSTEPS=K, MANUAL=1), unwind=K + 3, timeout=T, prop=(1600, 1699)))
    if tier != 'quick':
        J.append(Job('log-faithful-m2-h0-k3-manual', 'logger.cpp', dict(ROLE=0, LOGMODE=2, HEAD=0, KSTEPS=3, MANUAL=1), unwind=6, timeout=T, prop=(1600, 1699)))
        J.append(Job('log-faithful-m1-h1-k4', 'logger.cpp', dict(ROLE=0, LOGMODE=1, HEAD=1, KSTEPS=4), unwind=7, timeout=T, prop=(1600, 1699)))
        J.append(product_job('log-product-m1-vs-m2-k3', 'logger.cpp', dict(ROLE=1, HEAD=0, KSTEPS=3), dict(LOGMODE=1), dict(LOGMODE=2), (1650, 1651), (1600, 1699), unwind=6, timeout=T, steps=5, nch=14, ntr=28))
    return J

def pjob(name, prop, cap=3, K=2, prefix=0, payload=0, limit=2, timeout=600, **d):
    d.update(dict(CAP=cap, KSTEPS=K, PREFIX=prefix, PAYLOAD=payload, LIMIT=limit, PROP=prop))
    return Job(name, 'plan.cpp', d, unwind=max(cap + 2, K + 2, 4), unwindset={'nondet_fill.0': 200}, timeout=timeout, prop=(prop * 100, prop * 100 + 99))

def c08_jobs(tier, prop=8):
    T = 900 if tier == 'quick' else 3600
    J = []
    UPD, REACT, EXT = 1, 2, 4
    if tier == 'quick':
        J.append(pjob('plan-n3-cap1-upd-l2-edits', prop, cap=1, K=1, prefix=1, limit=2, timeout=T, NST=3, OPS=UPD, EDITS=1, WITNESS_EXTRA=1))
        J.append(pjob('plan-n2-cap2-upd-l1-edits', prop, cap=2, K=1, prefix=1, limit=1, timeout=T, NST=2, OPS=UPD, EDITS=1, WITNESS_EXTRA=1))
        J.append(pjob('plan-n2-cap3-upd-l1', prop, cap=3, K=1, prefix=1, limit=1, timeout=T, NST=2, OPS=UPD, EDITS=0))
        J.append(pjob('plan-n2-cap2-react-l1', prop, cap=2, K=1, prefix=1, limit=1, timeout=T, NST=2, OPS=REACT, EDITS=0))
        J.append(pjob('plan-n2-cap2-ext-k3', prop, cap=2, K=3, prefix=0, limit=1, timeout=T, NST=2, OPS=EXT, EDITS=0))
        J.append(pjob('plan-n2-cap1-upd-ext-k2-l1-edits', prop, cap=1, K=2, prefix=1, limit=1, timeout=T, NST=2, OPS=UPD | EXT, EDITS=1))
        J.append(pjob('plan-n2-cap2-upd-l1-payload', prop, cap=2, K=1, prefix=1, payload=1, limit=1, timeout=T, NST=2, OPS=UPD, EDITS=0))
        J.append(pjob('plan-n2-cap1-manual-reactivate-payload-k2', prop, cap=1, K=2, prefix=1, payload=1, limit=1, timeout=T, NST=2, OPS=UPD | EXT, EDITS=0, MANUAL=1))
    else:
        J.append(pjob('plan-n2-cap2-manual-reactivate-payload-k3', prop, cap=2, K=3, prefix=1, payload=1, limit=1, timeout=T, NST=2, OPS=UPD | EXT, EDITS=0, MANUAL=1))
        J.append(pjob('plan-n2-cap1-manual-reactivate-k3', prop, cap=1, K=3, prefix=1, payload=0, limit=1, timeout=T, NST=2, OPS=UPD | EXT, EDITS=1, MANUAL=1))
        for cap in (1, 2, 3, 4):
            J.append(pjob('plan-n3-cap%d-upd-l2-edits' % cap, prop, cap=cap, K=1, prefix=1, limit=2, timeout=T, NST=3, OPS=UPD, EDITS=1, WITNESS_EXTRA=1))
        for cap in (1, 2, 3):
            J.append(pjob('plan-n3-cap%d-react-l2-edits' % cap, prop, cap=cap, K=1, prefix=1, limit=2, timeout=T, NST=3, OPS=REACT, EDITS=1))
            J.append(pjob('plan-n2-cap%d-all-k2-l1' % cap, prop, cap=cap, K=2, prefix=1, limit=1, timeout=T, NST=2, OPS=UPD | REACT | EXT, EDITS=0))
        J.append(pjob('plan-n2-cap2-upd-ext-k3-l1', prop, cap=2, K=3, prefix=1, limit=1, timeout=T, NST=2, OPS=UPD | EXT, EDITS=0))
        J.append(pjob('plan-n3-cap3-all-k3-l1', prop, cap=3, K=3, prefix=0, limit=1, timeout=T, NST=3, OPS=UPD | EXT, EDITS=1))
        J.append(pjob('plan-n3-cap3-upd-l2-payload-edits', prop, cap=3, K=1, prefix=1, payload=1, limit=2, timeout=T, NST=3, OPS=UPD, EDITS=1))
        J.append(pjob('plan-n2-cap2-upd-l4-edits', prop, cap=2, K=1, prefix=1, limit=4, timeout=T, NST=2, OPS=UPD, EDITS=1))
    for j in J: j.weight_gb = 3.0
    return J

def c12_jobs(tier):
    J = []
    ns = NSET if tier == 'quick' else tuple(range(1, 256))
    T = 900 if tier == 'quick' else 3000
    def sj(name, n, **d):
        d.update(dict(NSTATES=n, STATE_LIST=sl(n)))
        full = d.get('FULL', 1)
        j = Job(name, 'serial.cpp', d, unwind=6, unwindset={'nondet_fill.0': 64}, timeout=T, mem_gb=16, prop=(1200, 1299), seeds=20)
        j.weight_gb = 0.3 + n * n * 4.0 / (255 * 255)
        return j
    for n in ns:
        big = n > 16
        variants = ((0, 0), (1, 0), (1, 1)) if (n <= 9 or (tier != 'quick' and n in NSET)) else ((n % 2, (n // 2) % 2),)
        for manual, head in variants:
            J.append(sj('ser-n%d-m%d-h%d' % (n, manual, head), n, MANUAL=manual, HEAD=head, FULL=2 if big else 1))
    J.append(sj('ser-n3-m1-h1-payload', 3, MANUAL=1, HEAD=1, PAYLOAD=1))
    feats = ['FFSM2_ENABLE_PLANS', 'FFSM2_ENABLE_TRANSITION_HISTORY', 'FFSM2_ENABLE_LOG_INTERFACE']
    combos = ((1, 1, 1), (1, 0, 0), (0, 1, 0)) if tier == 'quick' else tuple((a, b, c) for a in (0, 1) for b in (0, 1) for c in (0, 1))
    for cmb in combos:
        for pay in ((1,) if tier == 'quick' else (0, 1)):
            d = dict((f, '') for f, on in zip(feats, cmb) if on)
            J.append(sj('ser-n5-m1-feat%d%d%d-p%d' % (cmb + (pay,)), 5, MANUAL=1, HEAD=1, PAYLOAD=pay, **d))
    return J

def c17_jobs(tier):
    J = []
    T = 900 if tier == 'quick' else 3600
    K = 2 if tier == 'quick' else 3
    for manual in (0, 1):
        pay = 1 if (manual == 1 or tier != 'quick') else 0      # quick: payload on the manual variant only
        j = product_job('self-prefill-m%d-p%d-k%d' % (manual, pay, K), 'selfcomp.cpp', dict(ROLE=0, KSTEPS=K, MANUAL=manual, PAYLOAD=pay), {}, {}, (1700, 1701), (1700, 1799),
                        unwind=max(K + 3, 6), timeout=T, steps=K + 2, nch=12, ntr=28)
        j.unwindset['nondet_fill.0'] = 200; j.weight_gb = 4.0; J.append(j)
        j = Job('self-copy-m%d-p%d-k%d' % (manual, pay, K), 'selfcomp.cpp', dict(ROLE=1, KSTEPS=K, MANUAL=manual, PAYLOAD=pay), unwind=K + 4, unwindset={'nondet_fill.0': 200}, timeout=T, prop=(1700, 1799))
        j.weight_gb = 4.0; J.append(j)
    if tier != 'quick':
        j = product_job('self-prefill-m0-k4-nopay', 'selfcomp.cpp', dict(ROLE=0, KSTEPS=4, MANUAL=0, PAYLOAD=0, CAP=1), {}, {}, (1700, 1701), (1700, 1799), unwind=8, timeout=T, steps=6, nch=12, ntr=28)
        j.unwindset['nondet_fill.0'] = 200; j.weight_gb = 6.0; J.append(j)
        j = Job('self-copy-m0-k4-nopay', 'selfcomp.cpp', dict(ROLE=1, KSTEPS=4, MANUAL=0, PAYLOAD=0, CAP=1), unwind=8, unwindset={'nondet_fill.0': 200}, timeout=T, prop=(1700, 1799)); j.weight_gb = 6.0; J.append(j)
    return J

SWITCHES = ['FFSM2_ENABLE_PLANS', 'FFSM2_ENABLE_SERIALIZATION', 'FFSM2_ENABLE_TRANSITION_HISTORY', 'FFSM2_ENABLE_LOG_INTERFACE',
            'FFSM2_ENABLE_VERBOSE_DEBUG_LOG', 'FFSM2_ENABLE_STRUCTURE_REPORT', 'FFSM2_ENABLE_DEBUG_STATE_TYPE', 'FFSM2_DISABLE_TYPEINDEX']

def c19_pre(tier, work):
    """Regeneration step, complete finite enumerations (NOT solver verdicts): (i) every switch set compiles under every
    standard with both compilers; (iii) include/ffsm2/machine.hpp is byte-identical to the amalgamation by tools/join.py."""
    from concurrent.futures import ThreadPoolExecutor
    variants, info = engine.header_variants(work)
    out = dict(violations=[], inconclusive=[], report={})
    os.makedirs(os.path.join(engine.OUT, 'replay'), exist_ok=True)
    # (iii)
    out['report']['amalgamation_byte_identical'] = info.get('join_identical')
    if info.get('join_identical') is False:
        rp = os.path.join(engine.OUT, 'replay', 'C19-amalgamation.json')
        json.dump(dict(property='C19', kind='amalgamation', how='cd tools && python3 join.py (in a scratch copy) and cmp with include/ffsm2/machine.hpp'), open(rp, 'w'), indent=1)
        out['violations'].append(dict(label='amalgamation:bytes-differ', replay=rp, job='join.py', trace='include/ffsm2/machine.hpp differs from the amalgamation of development/'))
    elif info.get('join_identical') is None:
        out['inconclusive'].append('join.py could not be run: %s' % info.get('join_error'))
    # (i)
    sets = [[SWITCHES[b] for b in range(8) if (m >> b) & 1] for m in range(256)] + [['FFSM2_ENABLE_ALL']]
    stds = ('c++11', 'c++14', 'c++17', 'c++20')
    compilers = ('g++', 'clang++-14')
    src = os.path.join(engine.HARNESS, 'config_probe.cpp')
    tasks = []
    for vname, inc in variants:
        for cxx in compilers:
            for std in stds:
                for sw in sets: tasks.append((vname, inc, cxx, std, sw))
    def one(t):
        vname, inc, cxx, std, sw = t
        rc, o, _ = engine.run([cxx, '-std=' + std, '-fsyntax-only', '-w', '-I', inc] + ['-D' + x for x in sw] + [src], timeout=300)
        return t, rc, o
    bad = []
    with ThreadPoolExecutor(max_workers=max(2, engine.NCPU)) as ex:
        for t, rc, o in ex.map(one, tasks):
            if rc != 0: bad.append((t, o))
    out['report']['build_matrix'] = dict(switch_sets=len(sets), standards=list(stds), compilers=list(compilers), header_variants=[v[0] for v in variants],
                                         compiles=len(tasks), failed=len(bad), exhaustive=True)
    if bad:
        rp = os.path.join(engine.OUT, 'replay', 'C19-build-matrix.json')
        json.dump(dict(property='C19', kind='compile', failures=[dict(variant=t[0], compiler=t[2], std=t[3], switches=t[4], output=o[-1500:]) for t, o in bad[:40]], failed=len(bad)), open(rp, 'w'), indent=1)
        t0, o0 = bad[0]
        out['violations'].append(dict(label='build-matrix:%d-of-%d-fail' % (len(bad), len(tasks)), replay=rp, job='config_probe',
                                      trace='%s -std=%s %s: %s' % (t0[2], t0[3], ' '.join('-D' + x for x in t0[4]), o0[-300:])))
    return out

def c19_jobs(tier):
    J = []
    T = 600 if tier == 'quick' else 2400
    K = 2 if tier == 'quick' else 3
    def cj(name, a, b, common=None, rtti=True, **kw):
        c = dict(KSTEPS=K); c.update(common or {})
        j = product_job(name, 'config.cpp', c, a, b, (1900, 1901), (1900, 1999), unwind=max(K + 3, 6), timeout=T, steps=K + 2, nch=12, ntr=28, **kw)
        j.rtti = rtti; j.weight_gb = 2.0
        return j
    base = {}
    if tier == 'quick':
        pairs = [[x] for x in SWITCHES] + [['FFSM2_ENABLE_ALL'], ['FFSM2_ENABLE_PLANS', 'FFSM2_ENABLE_SERIALIZATION', 'FFSM2_ENABLE_TRANSITION_HISTORY']]
    else:
        pairs = [[SWITCHES[b] for b in range(8) if (m >> b) & 1] for m in range(1, 256)] + [['FFSM2_ENABLE_ALL']]
    for i, sw in enumerate(pairs):
        tag = '+'.join(x.replace('FFSM2_ENABLE_', '').replace('FFSM2_', '').lower() for x in sw) if len(sw) <= 3 else 'set%03d' % i
        variant = dict(MANUAL=(i % 2), PAYLOAD=((i // 2) % 2))
        J.append(cj('cfg-base-vs-%s' % tag, base, dict((x, '') for x in sw), common=variant))
    J.append(cj('cfg-base-vs-plans-manual-payload', base, dict(FFSM2_ENABLE_PLANS=''), common=dict(MANUAL=1, PAYLOAD=1)))
    # programs that USE one feature: enabling further, unused switches must not change them either
    P, S, H, L = 'FFSM2_ENABLE_PLANS', 'FFSM2_ENABLE_SERIALIZATION', 'FFSM2_ENABLE_TRANSITION_HISTORY', 'FFSM2_ENABLE_LOG_INTERFACE'
    uses = [('serial', dict(USE_SERIAL=1), [S], [[P], [H], [P, H, L]]), ('history', dict(USE_HISTORY=1), [H], [[P], [S], [P, S, L]]), ('plans', dict(USE_PLANS=1), [P], [[S], [H], [S, H, L]])]
    for uname, udefs, ubase, extras in uses:
        for i, ex in enumerate(extras if tier != 'quick' else extras[:2] if uname != 'serial' else extras):
            c = dict(udefs); c.update(dict(MANUAL=i % 2, PAYLOAD=0, FFSM2_DISABLE_TYPEINDEX='')); c.update(dict((x, '') for x in ubase))
            if uname != 'plans': c['KSTEPS'] = 4
            j = cj('cfg-uses-%s-plus-%s' % (uname, '+'.join(x.replace('FFSM2_ENABLE_', '').lower() for x in ex)), {}, dict((x, '') for x in ex), common=c, rtti=False)
            if uname != 'plans': j.c_defines['PR_STEPS'] = 6; j.unwindset['nondet_fill.0'] = 6 * 12 + 2; j.unwindset['harness.1'] = 8; j.unwind = 8
            J.append(j)
    # header variants: shipped single header vs development sources, same configuration
    for manual, pay in ((0, 1), (1, 0)):
        J.append(cj('hdr-shipped-vs-development-m%d-p%d' % (manual, pay), {}, {}, common=dict(MANUAL=manual, PAYLOAD=pay, FFSM2_DISABLE_TYPEINDEX='', FFSM2_ENABLE_PLANS='', FFSM2_ENABLE_TRANSITION_HISTORY=''), rtti=False))
    J[-1].product = [('A_', {}, 'shipped'), ('B_', {}, 'development')]
    J[-2].product = [('A_', {}, 'shipped'), ('B_', {}, 'development')]
    return J

def encoded_functions(job, work, inc):
    """FFSM2 functions reachable from the harness entry point, from the -O0 IR (at -O1 most are inlined into harness())."""
    wd = os.path.join(work, 'fenc-' + re.sub(r'\W', '_', job.name)); os.makedirs(wd, exist_ok=True)
    src = job.harness if os.path.isabs(job.harness) else os.path.join(engine.HARNESS, job.harness)
    defs = dict(job.defines)
    if job.product: defs.update(job.product[0][1])
    ll = os.path.join(wd, 'o0.ll')
    rc, out, _ = engine.run(['clang++-14', '-std=' + job.std] + engine.CLANG_FLAGS + engine.dflags(defs) +
                            ['-I', inc, '-I', engine.HARNESS, '-O0', '-S', '-emit-llvm', src, '-o', ll], timeout=300)
    if rc: return ['(O0 IR failed for %s)' % job.name]
    return engine.functions_encoded(open(ll).read())

TRANSLATOR_UB = ('ub:misaligned access', 'ub:load outside !range', 'ub:unreachable reached', 'ub:shift amount out of range', 'ub:division by zero',
                 'ub:signed overflow', 'ub:signed division overflow', 'ub:llvm.assume violated', 'ub:heap call')

def triage_ub(pid, job, r, work, variants, known, here):
    """C18: every failing UB check gets a counterexample, which is replayed (a) against the native build of the real
    code under UBSan+ASan, (b) against the natively compiled translated IR (which re-checks the same IR facts on real
    addresses).  (a) or - for the facts the translator asserts itself - (b) confirm a violation; anything else is
    listed as unconfirmed and makes the check inconclusive rather than raising an alarm."""
    import fnmatch
    out = dict(violations=[], knowns=[], inconclusive=[])
    if not r['ub_failed']: return out
    # one representative counterexample: whichever UB check the solver violates first (later failures are often only
    # consequences of the first: after an out-of-bounds access the memory model returns arbitrary values)
    by_variant = {}
    for u in r['ub_failed']: by_variant.setdefault(u['variant'], u)
    for vname, u in by_variant.items():
        cmd = r['cmds'][vname]
        draws, key, fn, trace_out, dt = engine.first_failure_trace(cmd, job.timeout * 3, max(job.mem_gb * 2, 24))
        key = re.sub(r'\s+', ' ', key or u['desc'])[:80]
        if not draws:
            out['inconclusive'].append('%s: %d UB checks fail in the solver but no counterexample trace could be extracted' % (job.name, len(r['ub_failed']))); continue
        inc = dict(variants)[u['variant']]
        tag = '%s-ub%d' % (re.sub(r'\W', '_', job.name), abs(hash(key)) % 10000)
        outs, err = engine.native_replay(job, work, inc, draws, tag, sanitize=True)
        san = bool(outs) and any('runtime error' in o[2] or 'AddressSanitizer' in o[2] or 'SIGNAL' in o[2] for o in outs)
        trn = False; trn_out = ''
        texe = os.path.join(u['wd'], 'translated')
        if os.path.exists(texe):
            f = os.path.join(work, 'replay-' + tag, 'draws.txt')
            rc, trn_out, _ = engine.run([texe, 'replay', f], timeout=60)
            trn = 'UB:' in trn_out
        rp = os.path.join(here, 'out', 'replay', '%s-%s-%s.json' % (pid, re.sub(r'[^A-Za-z0-9_.-]', '_', job.name), re.sub(r'[^A-Za-z0-9]+', '_', key)[:40]))
        json.dump(dict(property=pid, kind='ub', sanitize=True, assert_id=key, job=dict(name=job.name, harness=job.harness, defines=job.defines, std=job.std, product=job.product, extra_c=job.extra_c,
                                                                                         unwind=job.unwind, ub=True, olevel=job.olevel),
                       variant=u['variant'], draws=draws, cbmc_property=u['prop'], check=u['desc'],
                       sanitizer=[dict(build=o[0], rc=o[1], out=o[2][-1500:]) for o in (outs or [])], translated_replay=trn_out[-600:]), open(rp, 'w'), indent=1)
        label = '%s:%s' % (job.family, key)
        confirmed = san or (trn and any(key.startswith(t) for t in TRANSLATOR_UB))
        if not confirmed:
            out['inconclusive'].append('%s: UNCONFIRMED-UB %s (solver counterexample not confirmed by sanitizers or by the translated-IR replay; triage by reading) replay=%s' % (job.name, key, rp))
            continue
        kn = [x for x in known if x['prop'] == pid and fnmatch.fnmatch(label, x['match'])]
        if kn: out['knowns'].append((kn[0], label, rp))
        else: out['violations'].append(dict(label=label, replay=rp, job=job.name, trace='confirmed by %s; %s' % ('UBSan/ASan on the native build' if san else 'replay of the translated IR on real addresses', next((o[2] for o in (outs or []) if 'runtime error' in o[2] or 'AddressSanitizer' in o[2]), trn_out)[-300:])))
    return out

def alloc_scan(tier, work):
    """Regeneration step (not a solver verdict): the IR of a TU instantiating the whole public API declares no allocation function."""
    variants, _ = engine.header_variants(work)
    out = dict(violations=[], inconclusive=[], report={})
    pat = re.compile(r'^declare .*@(_Zn[wa]\w*|_Zd[la]\w*|malloc|calloc|realloc|free|aligned_alloc|posix_memalign|strdup)\(', re.M)
    for vname, inc in variants:
        for sw in (['FFSM2_ENABLE_ALL', 'FFSM2_ENABLE_LOG_INTERFACE'], ['FFSM2_ENABLE_ALL', 'FFSM2_ENABLE_VERBOSE_DEBUG_LOG', 'FFSM2_DISABLE_TYPEINDEX'], []):
            ll = os.path.join(work, 'alloc-%s-%d.ll' % (vname, len(sw)))
            rc, o, _ = engine.run(['clang++-14', '-std=c++11', '-O0', '-S', '-emit-llvm', '-w', '-I', inc] + ['-D' + x for x in sw] + [os.path.join(engine.HARNESS, 'config_probe.cpp'), '-o', ll], timeout=300)
            if rc != 0: out['inconclusive'].append('allocation scan: probe does not compile (%s): %s' % (' '.join(sw), o[-300:])); continue
            text = open(ll).read(); hits = sorted(set(pat.findall(text)))
            out['report']['allocation_symbols %s [%s]' % (vname, ' '.join(sw) or 'no switches')] = hits or 'none'
            if hits:
                rp = os.path.join(engine.OUT, 'replay', 'C18-alloc-symbols.json'); os.makedirs(os.path.dirname(rp), exist_ok=True)
                json.dump(dict(property='C18', kind='alloc-symbols', switches=sw, symbols=hits), open(rp, 'w'), indent=1)
                out['violations'].append(dict(label='alloc:symbols:%s' % ','.join(hits), replay=rp, job='alloc_scan', trace='allocation functions referenced: %s' % hits))
    return out

def c18_jobs(tier):
    J = []
    T = 900 if tier == 'quick' else 3600
    def ubj(j, olevel='O1'):
        j.ub = True; j.olevel = olevel; j.prop = (1800, 1899); j.timeout = T; j.name = 'ub-' + j.name + ('-O0' if olevel != 'O1' else ''); j.validate = True
        J.append(j); return j
    pays = (3, 5, 11, 13) if tier == 'quick' else tuple(range(1, 17))
    for k in pays:
        kk = 1 if (tier == 'quick' and k == 11) else 2
        ubj(mjob('m-n3-l2-k%d-pay%d' % (kk, k), 18, N=3, L=2, K=kk, PAYLOAD=k, OPS=CORE, **HIST))
    ubj(mjob('m-n1-k2', 18, N=1, K=2, OPS=CORE | EVENTS))
    ubj(mjob('m-n3-k2-events-head', 18, N=3, K=2, HEAD=1, OPS=EVENTS | 1, EVT=1))
    ubj(mjob('m-n3-l2-k2-manual-all', 18, N=3, L=2, K=2, MANUAL=1, HEAD=1, PAYLOAD=5, OPS=ALLOPS, **dict(HIST, **SER)))
    ubj(mjob('m-n4-ind', 18, N=4, K=1, INDUCTIVE=1, OPS=ALLOPS, **HIST))
    ubj(mjob('m-n2-l2-k1-pay5', 18, N=2, L=2, K=1, PAYLOAD=5, OPS=CORE, **HIST), olevel='O0m')
    ubj(pjob('plan-n2-cap2-upd-l1-edits', 18, cap=2, K=1, prefix=1, limit=1, NST=2, OPS=1, EDITS=1))
    ubj(pjob('plan-n2-cap1-upd-ext-l1-payload', 18, cap=1, K=2, prefix=1, payload=1, limit=1, NST=2, OPS=5, EDITS=0))
    for cap in ((1, 2, 3) if tier == 'quick' else (1, 2, 3, 4, 5, 6)):
        for pay in (0, 1):
            ubj(Job('tasks-cap%d-p%d' % (cap, pay), 'tasklist.cpp', dict(CAP=cap, MODE=0, PAYLOAD=pay), unwind=max(6, cap + 3), unwindset={'nondet_fill.0': 40 + 16 * cap}))
            if cap <= 2: ubj(Job('tasks-only-cap%d-p%d' % (cap, pay), 'tasklist.cpp', dict(CAP=cap, MODE=2, PAYLOAD=pay), unwind=max(6, cap + 3), unwindset={'nondet_fill.0': 40 + 16 * cap}), olevel='O0m')
    for cap in ((2,) if tier == 'quick' else (1, 2, 3)):
        ubj(Job('plan-hist-manual-cap%d' % cap, 'tasklist.cpp', dict(CAP=cap, MODE=1, KSTEPS=cap + 3, MANUAL=1), unwind=cap + 7, unwindset={'nondet_fill.0': 40 + 16 * cap}))
    for w in ((1, 8, 13, 32) if tier == 'quick' else range(1, 33)):
        ubj(Job('bs-w%d' % w, 'bitstream.cpp', dict(W=w, CAP=255, MODE=0), unwind=50, unwindset={'nondet_fill.0': 40}))
        if w in (1, 13, 32): ubj(Job('bs-w%d' % w, 'bitstream.cpp', dict(W=w, CAP=255, MODE=0), unwind=50, unwindset={'nondet_fill.0': 40}), olevel='O0m')
    ubj(Job('bitwidth', 'bitstream.cpp', dict(MODE=1), unwind=50))
    for cap in ((1, 8, 9, 255) if tier == 'quick' else BOUNDARY_CAPS):
        ubj(Job('bits-cap%d' % cap, 'containers.cpp', dict(CAP=cap, MODE=0), unwind=cap + 6, unwindset={'nondet_fill.0': 4 * cap + 16}))
        # the optimiser may fold away an out-of-bounds index (it is UB): the kernels are also encoded from the unoptimised IR
        ubj(Job('bits-cap%d' % cap, 'containers.cpp', dict(CAP=cap, MODE=0), unwind=cap + 6, unwindset={'nondet_fill.0': 4 * cap + 16}), olevel='O0m')
        if cap < 255:
            ubj(Job('static-cap%d' % cap, 'containers.cpp', dict(CAP=cap, MODE=1, ETYPE=2), unwind=cap + 6, unwindset={'nondet_fill.0': 4 * cap + 16}), olevel='O0m')
            ubj(Job('dynamic-cap%d' % cap, 'containers.cpp', dict(CAP=cap, MODE=2, ETYPE=1), unwind=cap + 6, unwindset={'nondet_fill.0': 4 * cap + 16}), olevel='O0m')
        if cap < 255:
            ubj(Job('static-cap%d' % cap, 'containers.cpp', dict(CAP=cap, MODE=1, ETYPE=2), unwind=cap + 6, unwindset={'nondet_fill.0': 4 * cap + 16}))
            ubj(Job('dynamic-cap%d' % cap, 'containers.cpp', dict(CAP=cap, MODE=2, ETYPE=1), unwind=cap + 6, unwindset={'nondet_fill.0': 4 * cap + 16}))
    for n in ((1, 2, 64) if tier == 'quick' else (1, 2, 3, 64, 128)):
        j = Job('disp-n%d' % n, 'dispatch.cpp', dict(NSTATES=n, STATE_LIST=sl(n), HEAD=n % 2, STAGES=3 if n <= 64 else 1), unwind=6, mem_gb=24, seeds=20)
        j.weight_gb = 0.5 + n * n * 8.0 / (255 * 255); ubj(j)
    # serialization at the state counts where the buffer grows by a byte (1 + bitWidth(N) crosses 8 at N = 128)
    for n in ((1, 2, 64, 127, 128) if tier == 'quick' else (1, 2, 3, 64, 127, 128, 129, 255)):
        j = Job('ser-n%d' % n, 'serial.cpp', dict(NSTATES=n, STATE_LIST=sl(n), MANUAL=1, HEAD=1, FULL=1 if n <= 16 else 2), unwind=6, unwindset={'nondet_fill.0': 64}, mem_gb=24, seeds=20)
        j.weight_gb = 0.5 + n * n * 8.0 / (255 * 255); ubj(j)
        if n in (2, 127, 128, 255):     # typed array indices survive only in the unoptimised IR: the buffer's own bounds, not just the enclosing object's
            j = Job('ser-n%d' % n, 'serial.cpp', dict(NSTATES=n, STATE_LIST=sl(n), MANUAL=0, HEAD=0, FULL=2), unwind=6, unwindset={'nondet_fill.0': 64}, mem_gb=24, seeds=20)
            j.weight_gb = 0.5 + n * n * 8.0 / (255 * 255); ubj(j, olevel='O0m')
    j = product_job('self-prefill-m0-k2', 'selfcomp.cpp', dict(ROLE=0, KSTEPS=2, MANUAL=0), {}, {}, (1700, 1701), (1800, 1899), unwind=6, steps=4, nch=12, ntr=28)
    j.unwindset['nondet_fill.0'] = 200; j.weight_gb = 4.0; ubj(j)
    if tier != 'quick':
        ubj(mjob('m-n3-l2-k2-pay11', 18, N=3, L=2, K=2, PAYLOAD=11, OPS=CORE, **HIST), olevel='O0m')
        ubj(pjob('plan-n3-cap3-upd-l2-edits', 18, cap=3, K=1, prefix=1, limit=2, NST=3, OPS=1, EDITS=1))
    return J

B_MACHINE = dict(
    quick='machine shapes N in {1,2,3} (+N=4 inductive), substitution limit L=4, K<=3 API calls from construction with every callback behaviour symbolic, arbitrary prefill of the object storage; automatic+manual activation, with/without root head, payload {u32,u16}; plus one API call from every invariant state (any active state, any outstanding request)',
    thorough='N in 1..5, L in {1,2,4,6}, K<=6 (core ops) / K<=4 (all ops), all option combinations above, one-step-from-any-state for N in 1..5')

PROPS = {
    'C01': dict(range=(100, 199), jobs=lambda t: c01_jobs(t, 1), bounds=B_MACHINE,
                outside='N>5; K beyond the bound for the history variant (the inductive variant has no K but trusts the invariant active<N, requested==invalid, request.destination<N or invalid); concurrent or re-entrant use; callbacks that throw'),
    'C02': dict(range=(200, 299), jobs=lambda t: c01_jobs(t, 2), bounds=B_MACHINE, outside='as C01; plan-issued requests are judged under C08'),
    'C03': dict(range=(300, 399), jobs=lambda t: c01_jobs(t, 3), bounds=B_MACHINE, outside='as C01'),
    'C04': dict(range=(400, 499), jobs=c04_jobs, bounds=dict(quick='L in {1,2,4}, N in {2,3}, K=2, free guards and ping-pong guards (every guard redirects), activation included', thorough='L in 1..8, N<=5, K<=3'), outside='L>8'),
    'C05': dict(range=(500, 599), jobs=c05_jobs, bounds=dict(quick='N in {1,2,3} (+4 inductive), K=2, event types int / packed 3-byte / 40-byte, with and without root head', thorough='N in 1..5, K=3'), outside='event types outside the three encoded'),
    'C06': dict(range=(600, 699), jobs=c06_jobs, bounds=dict(quick='N<=3, K<=2, value/reference/pointer context, all four control flavours, symbolic queried id', thorough='N<=5, K<=3'), outside='as C01'),
    'C07': dict(range=(700, 799), jobs=c07_jobs, bounds=dict(quick='payload types 1..6 of the family (sizes 1..8, alignments 1..8), N=3, K=2', thorough='all 16 payload types (sizes 1..24, alignments 1..16)'), outside='payload types outside the family; non-trivially-copyable payloads; plan-task payloads are checked in the plan harness'),
    'C13': dict(range=(1300, 1399), jobs=c13_jobs,
                bounds=dict(quick='one inductive step per width W=1..32 at capacity 255 (symbolic cursor, value, prior buffer under the stream invariant); capacities {1,7,8,9,33} x boundary widths; bitWidth() for every 32-bit argument and every (count<=255, index<count); six two-field sequences',
                            thorough='same plus 18 capacities and 70 two-field sequences'),
                outside='stream capacities other than those listed are covered only through the capacity-independent code path (the code has no capacity-dependent branch besides the byte count); widths > 32 do not exist',
                assumptions=['cursor + width <= capacity and value < 2^width (FFSM2_ASSERT / documented)', 'stream invariant: no bit at or past the cursor is set (established by the constructor, re-established by every write: checked)']),
    'C20': dict(range=(2000, 2099), jobs=c20_jobs, pre=api_probe,
                bounds=dict(quick='inductive step (arbitrary contents under the representation invariant, one symbolic operation, symbolic observed index) for BitArrayT at 19 boundary capacities, StaticArrayT/DynamicArrayT at 12 capacities with element types Short (special filler), u32, 3-byte struct',
                            thorough='BitArrayT at every capacity 1..255; arrays at 25 capacities x 3 element types'),
                outside='DynamicArrayT capacity 255 (its Index type cannot represent count==255+1 and the library never instantiates it so); element types outside the three encoded; operator& (bool) of BitArrayT, which the statement does not mention',
                assumptions=['indices passed are < capacity (FFSM2_ASSERT)', 'BitArrayT invariant: bits at or above the capacity in the last unit are zero (established by the constructor, re-established by every operation: checked)', 'DynamicArrayT invariant: count <= capacity; emplace only while count < capacity (FFSM2_ASSERT)']),
    'C10': dict(range=(1000, 1099), jobs=c10_jobs,
                bounds=dict(quick='task capacity 1..4, void and {u32} payload: one operation (append / iterator-remove at a symbolic position during iteration / clear) from every free-list+plan-list state satisfying the representation invariant, invariant re-established; base case; histories of 2*CAP+2 operations from construction for CAP<=3',
                            thorough='capacity 1..8; histories for CAP<=5'),
                outside='capacity > 8 (no capacity-dependent branch beyond CAP-1 exists in the code); consumption by firing and plan-outcome clearing are checked through the machine in C08/C09',
                assumptions=['representation invariant I of TaskListT/PlanT as written in harness/tasklist.cpp (inv_tasks, inv_plan): holds for the constructed object (checked) and is preserved by every operation (checked)', 'origins/destinations of stored tasks are valid state ids']),
    'C14': dict(range=(1400, 1499), jobs=c14_jobs,
                bounds=dict(quick='generated machines with N in {1,2,3,4,5,7,8,9,15,16,17,31,32,33,63,64,65} (full scenario: activation, immediateChangeTo(k), update, react, query, changeTo(k2)+update, symbolic k,k2) and N in {127,128,129,254,255} (activation, immediateChangeTo(k), update); with/without root head; static_assert(stateId<St<i>>()==i) for every i evaluated by clang',
                            thorough='every N from 1 to 255, full scenario, with and without root head'),
                outside='N > 255 is rejected by the library\'s index types'),
    'C15': dict(range=(1500, 1599), jobs=c15_jobs,
                bounds=dict(quick='k = 0..3 injections, state at first/middle/last position of a 3-state machine, histories of 3 symbolic API calls (update, react, query, immediateChangeTo) with symbolic requests and entry-guard vetoes',
                            thorough='same with 5 calls'),
                outside='k > 3 injections (the wide* recursion is uniform in k); the order inside exitGuard and query deliveries, which the statement does not fix (recorded, not asserted)',
                assumptions=['for k >= 2 the state class defines every callback itself (a usage constraint of the library\'s name lookup into the repeated FSM::State base)']),
    'C16': dict(range=(1600, 1699), jobs=c16_jobs,
                bounds=dict(quick='3-state machine (one state defining every callback, one defining none, one defining a subset), root head with plan callbacks, K=2 symbolic API calls (update, react, query, changeTo, immediateChangeTo, plan edit, succeed) with symbolic callback behaviour; log modes interface and verbose; attach schedule symbolic (from construction, attached at step k, detached at step k, never); product no-log-interface build vs each log mode on the same choice stream',
                            thorough='K=3..4, plus product interface vs verbose'),
                outside='recordPlanStatus (never emitted by the library); K beyond the bound',
                assumptions=['the logger is user code: a recording stub behind the real virtual LoggerInterface']),
    'C08': dict(range=(800, 899), jobs=lambda t: c08_jobs(t, 8),
                bounds=dict(quick='3 states + root head, task capacity 1..3, substitution limit 2: one or two symbolic API calls from an arbitrary reachable state (any plan content up to capacity, any success/failure reports, any active state: built by a passive prefix through the public API), plus 3-call histories from construction; every callback may request, report, append, clear; payload {u32,u16} variant',
                            thorough='capacity 1..5, up to 3 calls from an arbitrary state, 5-call histories, substitution limit 4'),
                outside='capacity > 5, more than 3 states, longer histories',
                assumptions=['the log interface is used as an observation channel for requests the library issues on behalf of plan tasks (its faithfulness is C16)', 'succeed()/fail() without argument are not called from the root head (origin would be the invalid id; FFSM2_ASSERT in BitArrayT::set)']),
    'C09': dict(range=(900, 999), jobs=lambda t: c08_jobs(t, 9),
                bounds=dict(quick='as C08, with arbitrary prefill of the machine storage', thorough='as C08'), outside='as C08',
                assumptions=['as C08']),
    'C12': dict(range=(1200, 1299), jobs=c12_jobs,
                bounds=dict(quick='saver x loader with both in arbitrary reachable activity states (symbolic), automatic and manual activation, with/without root head; N in the boundary set {1,2,3,4,5,7,8,9,15,16,17,31,32,33,63,64,65,127,128,129,254,255} (byte-exact saver comparison and canonicity pair for N<=16, reduced scenario above); capacity static_asserts for every N encoded; feature combinations plans/history/log/payload at N=5',
                            thorough='every N from 1 to 255 x 3 activation/head variants; all 16 feature combinations at N=5'),
                outside='loading buffers not produced by save() of the same machine type (asserted precondition of load())',
                assumptions=['load() is fed only buffers produced by save() of the same machine type']),
    'C17': dict(range=(1700, 1799), jobs=c17_jobs,
                bounds=dict(quick='3 states + root head, plans (capacity 2) + transition history + serialization + payload {u16}: (1) two constructions over independent arbitrary prefills driven by the same 2-step symbolic history: traces (callbacks, active state, previous transition, plan content, serialized form) identical; (2) copy taken before a symbolic step: observers equal at that moment, same traces afterwards, each side byte-unchanged while the other is driven; automatic and manual activation',
                            thorough='3-step histories, plus 4-step payload-free variants'),
                outside='longer histories; move construction is exercised only through the shared CoreT code path (copy); reads of indeterminate memory that cannot influence behaviour (padding copies)'),
    'C19': dict(range=(1900, 1999), jobs=c19_jobs, pre=c19_pre,
                bounds=dict(quick='regeneration step (complete enumeration, not a solver verdict): 257 switch sets x 4 standards x 2 compilers compile; shipped header byte-identical to the amalgamation. Solver: feature-neutral 2-step symbolic scenario (transitions, guards, update, react; manual/automatic, payload/void) under the baseline vs each single switch, vs FFSM2_ENABLE_ALL, vs plans+serialization+history; shipped header vs development sources',
                            thorough='same with 3-step scenario under the baseline vs all 255 other switch sets'),
                outside='programs that use the enabled feature (their behaviour is the subject of the other properties); MSVC-only paths',
                level_note='the compile matrix and the byte comparison are finite enumerations executed completely while the encodings are regenerated; they are reported under coverage.regeneration_step and are not solver verdicts. The behavioural part is decided by the solver on product encodings.'),
    'C18': dict(range=(1800, 1899), jobs=c18_jobs, pre=alloc_scan, ub=True,
                bounds=dict(quick='the machine, plan, task-list, bit-stream, container, dispatch (N in {1,2,64}), serialization and self-composition harnesses re-encoded with UB assertions: CBMC bounds/pointer/overflow/shift/division checks plus translator-inserted checks for every IR-level fact (access alignment incl. memcpy operands, !range of loads = invalid bool, reaching unreachable, shift amounts, nsw overflow, heap calls); payload types {u32},{u32,u16},alignas(16),{u64,u8}; plans at full capacity; one job from the -O0+mem2reg IR. Regeneration step: no allocation symbol declared by a TU instantiating the whole API',
                            thorough='all 16 payload types, capacities up to 6, N=255, all 32 stream widths, more -O0 jobs'),
                outside='UB that neither CBMC nor an IR-level fact exposes (e.g. strict-aliasing violations, lifetime rules beyond placement-new as written); reads of indeterminate values are decided through C17 (a read that can influence behaviour makes two prefills diverge)',
                level_note='solver verdicts are per UB assertion; a counterexample is reported as a violation only if UBSan/ASan confirm it on the native build of the real code, or - for the IR facts the translator asserts itself - the natively compiled translated IR reproduces it on real addresses; unconfirmed counterexamples make the check inconclusive and are listed separately'),
    'C11': dict(range=(1100, 1199), jobs=c11_machine_jobs, bounds=dict(quick='N<=4, K<=3', thorough='N<=5, K<=4'), outside='as C01'),
}

NOT_YET = {}

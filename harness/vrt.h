// Harness-side view of the verification runtime (rt/cbmc_rt.c under CBMC, rt/native_rt.c natively).
#pragma once
extern "C" {
unsigned char nondet_u8(void);
unsigned char nondet_below(unsigned char n);   // arbitrary value in [0,n)
unsigned      nondet_u32(void);
void nondet_fill(void* p, unsigned long n);    // arbitrary bytes, opaque to the optimizer
void vassert(int cond, int id);                // property assertion; id = property*100 + k
void vassume(int cond);                        // documented precondition only
void vwitness(int id);                         // reachability witness: must come back FAILURE (id >= 9000)
void vrec(int a, int b);
unsigned vmem_equal(const void* a, const void* b, unsigned long n);   // byte comparison / copy with their own loop ids
void vmem_copy(void* d, const void* s, unsigned long n);                       // trace event for native-vs-translated comparison (no-op under CBMC)
}

/* Prelude included by every translated module (ll2c output).
 * Under CBMC (__CPROVER__) property and UB checks become __CPROVER_assert;
 * natively (translator validation / replay) they call the runtime. */
#ifndef VERIF_PRELUDE_H
#define VERIF_PRELUDE_H
#include <stdint.h>
#include <string.h>
#ifndef VERIF_PROP_LO
#define VERIF_PROP_LO 0
#endif
#ifndef VERIF_PROP_HI
#define VERIF_PROP_HI 99999
#endif
#define VERIF_SEL(id) (((id) >= VERIF_PROP_LO && (id) <= VERIF_PROP_HI) || (id) >= 9000)
#ifdef __CPROVER__
uint64_t nondet_u64(void);
void vassert(uint32_t c, uint32_t id);
void vassume(uint32_t c);
void vwitness(uint32_t id);
#define VASSERT(c, id)     do { if (VERIF_SEL(id)) __CPROVER_assert((c), "vassert:" #id); } while (0)
#ifdef VERIF_NOWITNESS
#define VWITNESS(id)       do { } while (0)
#else
#define VWITNESS(id)       __CPROVER_assert(0, "vwitness:" #id)
#endif
#define VASSUME(c)         __CPROVER_assume(c)
#ifdef VERIF_UB
#define ASSERT_UB(c, msg)  __CPROVER_assert((c), "ub:" msg)
#define ASSERT_ALIGN(p, a) __CPROVER_assert((__CPROVER_POINTER_OFFSET(p) % (a)) == 0, "ub:misaligned access")
#define UNREACHABLE()      do { __CPROVER_assert(0, "ub:unreachable reached"); __CPROVER_assume(0); } while (0)
#define ASSUME_LLVM(c)     __CPROVER_assert((c), "ub:llvm.assume violated")
#define HEAP_CALL(name)    __CPROVER_assert(0, "ub:heap call " name)
#else
#define ASSERT_UB(c, msg)  do { } while (0)
#define ASSERT_ALIGN(p, a) do { } while (0)
#define UNREACHABLE()      do { __CPROVER_assert(0, "ub:unreachable reached"); __CPROVER_assume(0); } while (0)
#define ASSUME_LLVM(c)     do { } while (0)
#define HEAP_CALL(name)    __CPROVER_assert(0, "ub:heap call " name)
#endif
#else
void vassert(uint32_t c, uint32_t id);
void vassume(uint32_t c);
void vwitness(uint32_t id);
void vub(const char* msg);
static inline uint64_t nondet_u64(void) { return 0; }
#define VASSERT(c, id)     vassert((c), (id))
#define VWITNESS(id)       vwitness(id)
#define VASSUME(c)         vassume(c)
#define ASSERT_UB(c, msg)  do { if (!(c)) vub(msg); } while (0)
#define ASSERT_ALIGN(p, a) do { if (((uintptr_t)(p)) % (a)) vub("misaligned access"); } while (0)
#define UNREACHABLE()      vub("unreachable reached")
#define ASSUME_LLVM(c)     do { if (!(c)) vub("llvm.assume violated"); } while (0)
#define HEAP_CALL(name)    vub("heap call " name)
#endif
#endif

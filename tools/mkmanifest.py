#!/usr/bin/python3
"""Regenerate /verif/MANIFEST.json from lib/props.py (claimed properties) and properties.jsonl."""
import json, os, sys
HERE = os.path.dirname(os.path.dirname(os.path.abspath(__file__)))
sys.path.insert(0, os.path.join(HERE, 'lib'))
import props
allp = [json.loads(l) for l in open(os.path.join(HERE, 'properties.jsonl'))]
claimed = sorted(props.PROPS)
man = dict(version=1, setup_cmd="true",
  hooks=dict(guard="FFSM2_VERIF",
             enable="no source hooks exist: harnesses are compiled with -DFFSM2_VERIF -fno-access-control against the unmodified header",
             baseline_off_cmd="cmake -S /repo -B /repo/_build -G Ninja && cmake --build /repo/_build",
             source_commits=[], add_only=True),
  engines=[dict(name="ll2c+cbmc", path="/verif/lib", serves_properties=claimed,
                kind_free_text="clang-14 IR of the real header -> own typed IR-to-C translator (lib/ll2c.py) -> CBMC 6.11 bounded model checker (SAT: cadical); counterexamples are replayed against the native g++/clang++ build of the same harness")],
  checks=[], not_applicable=[],
  notes="DESIGN.md describes the approach; known_findings.txt lists the nine repaired defects (F1-F9). quick = every-change tier, thorough = deeper bounds.")
for p in allp:
    pid = p['id']
    if pid in props.PROPS:
        sp = props.PROPS[pid]
        man['checks'].append(dict(
            property_id=pid, quick_cmd="./check %s --tier quick" % pid, thorough_cmd="./check %s --tier thorough" % pid,
            evidence_file="/verif/evidence/%s.json" % pid, replay_cmd_template="./check %s --replay {path}" % pid, engine="ll2c+cbmc",
            level_claimed=dict(category="model_checking",
                text=sp.get('level_text', "bounded symbolic checking of the real code: each assertion of the property's monitor is decided by the SAT solver over all values within the stated bounds (shape parameters, number of API calls or one step from any invariant state, every callback behaviour, every memory prefill); nothing is sampled"),
                design_ref="DESIGN.md section 5, " + pid),
            level_note=sp.get('level_note', "trusted: clang-14 front end and -O1 passes, the IR->C translator (validated on every run against the native build on pseudo-random choice streams, plus reachability witnesses), CBMC 6.11 and its SAT back end, the harness monitor. Bounds, assumptions and what lies outside the claim are written to the evidence file."),
            technique=sp.get('technique', "solver-based bounded model checking: clang IR of the real header translated to C, decided by CBMC/SAT")))
    else:
        man['not_applicable'].append(dict(property_id=pid, reason=props.NOT_YET.get(pid, "check under construction in this session; will be claimed once its check runs clean on the unchanged tree")))
json.dump(man, open(os.path.join(HERE, 'MANIFEST.json'), 'w'), indent=1)
print('claimed:', claimed, 'not_applicable:', [x['property_id'] for x in man['not_applicable']])

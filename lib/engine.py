"""Shared engine: harness.cpp -> clang IR -> ll2c -> CBMC, translator validation, replay (DESIGN.md section 2)."""
import os, re, sys, json, time, shutil, subprocess, hashlib, resource, tempfile, threading, fnmatch
from concurrent.futures import ThreadPoolExecutor, as_completed
import ll2c

VERIF = os.path.dirname(os.path.dirname(os.path.abspath(__file__)))
REPO = os.environ.get('VERIF_REPO', '/repo')
RT = os.path.join(VERIF, 'rt')
HARNESS = os.path.join(VERIF, 'harness')
OUT = os.path.join(VERIF, 'out')
NCPU = os.cpu_count() or 4

CLANG_FLAGS = ['-fno-vectorize', '-fno-slp-vectorize', '-fno-unroll-loops', '-fno-exceptions', '-fno-rtti',
               '-fno-access-control', '-Wno-everything', '-DFFSM2_VERIF', '-mllvm', '-simplifycfg-sink-common=false']

class Inconclusive(Exception): pass

def run(cmd, timeout=None, cwd=None, mem_gb=None, env=None):
    def lim():
        if mem_gb:
            b = int(mem_gb * (1 << 30)); resource.setrlimit(resource.RLIMIT_AS, (b, b))
        os.setsid()
    t0 = time.time()
    try:
        p = subprocess.run(cmd, cwd=cwd, stdout=subprocess.PIPE, stderr=subprocess.STDOUT, timeout=timeout,
                           preexec_fn=lim, env=env)
        return p.returncode, p.stdout.decode('utf-8', 'replace'), time.time() - t0
    except subprocess.TimeoutExpired as e:
        return -999, (e.stdout or b'').decode('utf-8', 'replace') + '\nTIMEOUT', time.time() - t0

# ------------------------------------------------------------------------------------------------ header variants
_variants_lock = threading.Lock(); _variants = None
def header_variants(work):
    """[(name, include_dir)].  Re-runs tools/join.py in scratch; if the amalgamation is byte-identical to the
    shipped header only the shipped one is encoded, otherwise both the shipped and the development headers are."""
    global _variants
    with _variants_lock:
        if _variants is not None: return _variants
        shipped = os.path.join(REPO, 'include')
        v = [('shipped', shipped)]
        info = dict(join_identical=None)
        try:
            sc = os.path.join(work, 'join'); shutil.rmtree(sc, ignore_errors=True); os.makedirs(sc)
            shutil.copytree(os.path.join(REPO, 'development'), os.path.join(sc, 'development'))
            shutil.copytree(os.path.join(REPO, 'tools'), os.path.join(sc, 'tools'))
            os.makedirs(os.path.join(sc, 'include', 'ffsm2'))
            rc, out, _ = run([sys.executable, 'join.py'], cwd=os.path.join(sc, 'tools'), timeout=120)
            a = open(os.path.join(sc, 'include', 'ffsm2', 'machine.hpp'), 'rb').read() if rc == 0 else None
            b = open(os.path.join(shipped, 'ffsm2', 'machine.hpp'), 'rb').read()
            info['join_identical'] = (a == b)
            dv = os.path.join(work, 'devinc'); os.makedirs(os.path.join(dv, 'ffsm2'), exist_ok=True)
            with open(os.path.join(dv, 'ffsm2', 'machine.hpp'), 'w') as f:
                f.write('#include "%s"\n' % os.path.join(REPO, 'development', 'ffsm2', 'machine_dev.hpp'))
            info['devinc'] = dv
            if a != b: v.append(('development', dv))
            shutil.rmtree(sc, ignore_errors=True)
        except Exception as e:
            info['join_error'] = repr(e)
        _variants = (v, info)
        return _variants

# ------------------------------------------------------------------------------------------------ jobs
class Job:
    def __init__(s, name, harness, defines=None, unwind=10, unwindset=None, ub=False, olevel='O1', std='c++11',
                 timeout=300, mem_gb=12, prop=(0, 99999), family=None, validate=True, seeds=40, extra_c=None,
                 product=None, cbmc_extra=None, expect_unwind_fail=False, note=''):
        s.name = name; s.harness = harness; s.defines = dict(defines or {}); s.unwind = unwind
        s.unwindset = dict(unwindset or {}); s.ub = ub; s.olevel = olevel; s.std = std; s.timeout = timeout
        s.mem_gb = mem_gb; s.prop = prop; s.family = family or os.path.splitext(os.path.basename(harness))[0]
        s.validate = validate; s.seeds = seeds; s.extra_c = extra_c or []; s.product = product
        s.cbmc_extra = cbmc_extra or []; s.note = note
    def describe(s):
        return dict(name=s.name, harness=os.path.basename(s.harness), defines=s.defines, unwind=s.unwind, ub=s.ub,
                    ir=s.olevel, std=s.std, product=[[p[0], p[1]] + list(p[2:]) for p in s.product] if s.product else None)

PROP_RE = re.compile(r'^\[(?P<name>[^\]]+)\] line (?P<line>\d+) (?P<desc>.*): (?P<res>SUCCESS|FAILURE|UNKNOWN|ERROR)\s*$')

def dflags(defs): return ['-D%s=%s' % (k, v) if v is not None and v != '' else '-D%s' % k for k, v in sorted(defs.items())]

def cxx_flags(job):
    return [f for f in CLANG_FLAGS if not (f == '-fno-rtti' and getattr(job, 'rtti', False))]

def unit_inc(job, unit, inc):
    """Product units may pin a header variant: (prefix, defines, 'shipped'|'development')."""
    if len(unit) > 2 and unit[2]:
        _, info = _variants
        return os.path.join(REPO, 'include') if unit[2] == 'shipped' else info['devinc']
    return inc

def compile_ir(job, src, defs, inc, out_ll, olevel):
    base = ['clang++-14', '-std=' + job.std] + cxx_flags(job) + dflags(defs) + ['-I', inc, '-I', HARNESS, '-S', '-emit-llvm']
    if olevel == 'O1':
        rc, out, _ = run(base + ['-O1', src, '-o', out_ll], timeout=600)
    else:
        raw = out_ll + '.raw'
        rc, out, _ = run(base + ['-O0', '-Xclang', '-disable-O0-optnone', src, '-o', raw], timeout=600)
        if rc == 0: rc, out, _ = run(['opt-14', '-S', '-passes=mem2reg', raw, '-o', out_ll], timeout=600)
    if rc != 0: raise Inconclusive('clang failed for %s:\n%s' % (job.name, out[-3000:]))

def functions_encoded(ll_text):
    """FFSM2 functions (demangled) defined in the module and reachable from harness()."""
    defs = {}; cur = None
    for ln in ll_text.split('\n'):
        if ln.startswith('define'):
            m = re.search(r'@("[^"]+"|[-\w$.]+)\(', ln); cur = m.group(1) if m else None; defs[cur] = set()
        elif ln == '}': cur = None
        elif cur is not None:
            for m in re.finditer(r'@("[^"]+"|[-\w$.]+)', ln): defs[cur].add(m.group(1))
    seen = set(); st = [k for k in defs if 'harness' in k or 'scenario' in k]
    while st:
        f = st.pop()
        if f in seen or f not in defs: continue
        seen.add(f); st.extend(defs[f])
    names = sorted(x.strip('"') for x in seen)
    if not names: return []
    p = subprocess.run(['llvm-cxxfilt-14'], input='\n'.join(names).encode(), stdout=subprocess.PIPE)
    dem = p.stdout.decode().split('\n')
    out = []
    for d in dem:
        if 'ffsm2::' in d:
            d = re.sub(r'<.*>', '<...>', d.split('(')[0]) if len(d) > 160 else d.split('(')[0]
            out.append(d)
    return sorted(set(out))

def build_native(job, wd, inc, exe, cxx='g++', cc='gcc', opt='-O1', san=None):
    """Native build of harness.cpp against the real header plus rt/native_rt.c (no translation involved)."""
    san = san or []
    src = job.harness if os.path.isabs(job.harness) else os.path.join(HARNESS, job.harness)
    extra = [x if os.path.isabs(x) else os.path.join(RT, x) for x in job.extra_c]
    objs = []
    for i, cf in enumerate([os.path.join(RT, 'native_rt.c')] + extra):
        o = os.path.join(wd, 'rt%d-%s.o' % (i, os.path.basename(exe)))
        rc, out, _ = run([cc, opt, '-w'] + san + ['-D%s=%s' % kv for kv in sorted(getattr(job, 'c_defines', {}).items())] + ['-I', RT, '-c', cf, '-o', o], timeout=600)
        if rc: return 'rt build failed: ' + out[-1500:]
        objs.append(o)
    units = job.product if job.product else [('', {})]
    for i, unit in enumerate(units):
        pfx, pdefs = unit[0], unit[1]
        d = dict(job.defines); d.update(pdefs)
        if job.product: d['VERIF_PREFIX'] = pfx
        o = os.path.join(wd, 'h%d-%s.o' % (i, os.path.basename(exe)))
        rc, out, _ = run([cxx, '-std=' + job.std, opt, '-w', '-fno-access-control', '-DFFSM2_VERIF'] + san + dflags(d) +
                         ['-I', unit_inc(job, unit, inc), '-I', HARNESS, '-c', src, '-o', o], timeout=600)
        if rc: return 'native build failed: ' + out[-2000:]
        objs.append(o)
    rc, out, _ = run([cxx, opt, '-w'] + san + ['-o', exe] + objs, timeout=600)
    if rc: return 'native link failed: ' + out[-1500:]
    return None

def run_job(job, work, seed=0):
    """Returns a result dict.  Never raises: anything unexpected becomes status INCONCLUSIVE."""
    t0 = time.time()
    res = dict(job=job.describe(), status='OK', props={}, witnesses={}, unwinding_failed=[], ub_failed=[],
               solver_s=0.0, queries=0, validated_streams=0, variants=[], notes=[], peak_rss_mb=0, trace_samples=[])
    try:
        variants, vinfo = header_variants(work)
        for vname, inc in variants:
            _run_variant(job, work, vname, inc, res, seed)
        res['variants'] = [v[0] for v in variants]
    except Inconclusive as e:
        res['status'] = 'INCONCLUSIVE'; res['notes'].append(str(e))
    except Exception as e:
        import traceback
        res['status'] = 'INCONCLUSIVE'; res['notes'].append('engine error: %r\n%s' % (e, traceback.format_exc()[-2000:]))
    res['wall_s'] = round(time.time() - t0, 2)
    return res

def _translate(job, wd, tag, src, defs, inc, prefix=''):
    ll = os.path.join(wd, tag + '.ll'); c = os.path.join(wd, tag + '.c')
    compile_ir(job, src, defs, inc, ll, job.olevel)
    text = open(ll).read()
    # out-of-range shifts and nsw overflow only yield poison in LLVM; the optimizer speculates them, so they are asserted
    # only on the unoptimised (-O0 + mem2reg) IR, where they still correspond one-to-one to source-level operations
    opts = dict(align=True, range=True, poison=(job.olevel != 'O1'))
    if prefix: opts['prefix'] = prefix
    try:
        out, stats, M = ll2c.translate(text, opts)
    except (NotImplementedError, SyntaxError, KeyError) as e:
        raise Inconclusive('translator cannot encode %s (%s): %r' % (job.name, tag, e))
    open(c, 'w').write(out)
    return c, text, stats

def _run_variant(job, work, vname, inc, res, seed):
    wd = os.path.join(work, re.sub(r'[^A-Za-z0-9_.-]', '_', job.name) + '.' + vname)
    shutil.rmtree(wd, ignore_errors=True); os.makedirs(wd)
    src = job.harness if os.path.isabs(job.harness) else os.path.join(HARNESS, job.harness)
    cfiles = []; lltexts = []
    if job.product:
        for unit in job.product:
            pfx, pdefs = unit[0], unit[1]
            d = dict(job.defines); d.update(pdefs); d['VERIF_PREFIX'] = pfx
            c, text, st = _translate(job, wd, pfx.rstrip('_') or 'm', src, d, unit_inc(job, unit, inc), prefix=pfx)
            cfiles.append(c); lltexts.append(text)
    else:
        c, text, st = _translate(job, wd, 'h', src, job.defines, inc)
        cfiles.append(c); lltexts.append(text)
    res.setdefault('ir_lines', 0); res['ir_lines'] += sum(t.count('\n') for t in lltexts)
    res.setdefault('translated', []).append(st)
    extra = [x if os.path.isabs(x) else os.path.join(RT, x) for x in job.extra_c]
    # ---- translator validation: translated C (gcc) vs native C++ (g++) on pseudo-random choice streams
    if job.validate and job.seeds > 0:
        nat = os.path.join(wd, 'native'); tr = os.path.join(wd, 'translated')
        rt = os.path.join(RT, 'native_rt.c')
        err = build_native(job, wd, inc, nat)
        if err: raise Inconclusive(err)
        tobjs = []
        for i, cf in enumerate(cfiles + [rt] + extra):
            o = os.path.join(wd, 'tr%d.o' % i)
            rc, out, _ = run(['gcc', '-O1', '-w', '-fno-strict-aliasing', '-fwrapv', '-I', RT] + ['-D%s=%s' % kv for kv in sorted(getattr(job, 'c_defines', {}).items())] + ['-c', cf, '-o', o], timeout=600)
            if rc: break
            tobjs.append(o)
        if rc == 0: rc, out, _ = run(['g++', '-w', '-o', tr] + tobjs, timeout=600)     # g++ only as the linker (typeinfo symbols when RTTI is on)
        if rc: raise Inconclusive('gcc build of translated C failed: ' + out[-2000:])
        a = run([nat, str(seed * 1000 + 1), str(job.seeds)], timeout=120)[1]
        b = run([tr, str(seed * 1000 + 1), str(job.seeds)], timeout=120)[1]
        if a != b:
            la, lb = a.split('\n'), b.split('\n')
            d = next(((x, y) for x, y in zip(la, lb) if x != y), (a[-300:], b[-300:]))
            # either the translator is wrong or the code under test has undefined behaviour that the two compilers resolve
            # differently; CBMC still runs: a counterexample that replays natively is reported, otherwise the job is inconclusive
            res['validation_failed'] = 'translator validation FAILED for %s: native vs translated differ:\n  native:     %s\n  translated: %s' % (job.name, d[0][:400], d[1][:400])
        else: res['validated_streams'] += job.seeds
        lines = [l for l in a.split('\n') if l.startswith('seed')]
        res['native_random_fail_lines'] = res.get('native_random_fail_lines', 0) + sum(1 for l in lines if 'FAIL:' in l)
        if lines and len(res['trace_samples']) < 2: res['trace_samples'].append(lines[0][:300])
    # ---- CBMC
    cmd = ['cbmc'] + cfiles + [os.path.join(RT, 'cbmc_rt.c')] + extra + ['-I', RT, '--function', 'harness',
           '--unwind', str(job.unwind), '--unwinding-assertions', '--drop-unused-functions', '--slice-formula', '--object-bits', '12',
           '-DVERIF_PROP_LO=%d' % job.prop[0], '-DVERIF_PROP_HI=%d' % job.prop[1]]
    uws = dict({'nondet_u32.0': 6, 'vmem_equal.0': 400, 'vmem_copy.0': 400}); uws.update(job.unwindset)
    for k, v in uws.items(): cmd += ['--unwindset', '%s:%d' % (k, v)]
    if job.ub: cmd += ['-DVERIF_UB', '--pointer-overflow-check', '--no-malloc-may-fail']
    else: cmd += ['--no-standard-checks']
    cmd += job.cbmc_extra or ['--sat-solver', 'cadical']
    cmd += ['-D%s=%s' % kv for kv in sorted(getattr(job, 'c_defines', {}).items())]
    rc, out, dt = run(['/usr/bin/time', '-f', 'MAXRSS_KB=%M'] + cmd, timeout=job.timeout, mem_gb=job.mem_gb)
    res['solver_s'] += dt
    m = re.search(r'MAXRSS_KB=(\d+)', out)
    if m: res['peak_rss_mb'] = max(res['peak_rss_mb'], int(m.group(1)) // 1024)
    open(os.path.join(wd, 'cbmc.log'), 'w').write(' '.join(cmd) + '\n' + out)
    if rc == -999: raise Inconclusive('CBMC timeout after %ds on %s' % (job.timeout, job.name))
    if 'VERIFICATION SUCCESSFUL' not in out and 'VERIFICATION FAILED' not in out:
        raise Inconclusive('CBMC gave no verdict on %s (rc=%s): %s' % (job.name, rc, out[-1500:]))
    if '(error' in out or 'VERIFICATION ERROR' in out: raise Inconclusive('solver error on %s' % job.name)
    seen_witness = False
    for ln in out.split('\n'):
        m = PROP_RE.match(ln)
        if not m: continue
        res['queries'] += 1
        desc, r, pname = m.group('desc'), m.group('res'), m.group('name')
        if desc.startswith('vassert:'):
            k = desc[8:]
            cur = res['props'].get(k)
            if r != 'SUCCESS': res['props'][k] = dict(res=r, prop=pname, variant=vname, wd=wd)
            elif cur is None: res['props'][k] = dict(res='SUCCESS')
        elif desc.startswith('vwitness:'):
            k = desc[9:]
            # reachable in at least one inlined copy is enough
            if r == 'FAILURE': res['witnesses'][k] = 'REACHED'
            else: res['witnesses'].setdefault(k, 'UNREACHED')
        elif 'unwinding assertion' in desc:
            if r != 'SUCCESS': res['unwinding_failed'].append(dict(prop=pname, desc=desc, variant=vname, wd=wd))
        else:
            if r != 'SUCCESS' and (job.ub or desc.startswith('ub:heap')):
                res['ub_failed'].append(dict(prop=pname, desc=desc, line=int(m.group('line')), variant=vname, wd=wd))
    res.setdefault('cmds', {})[vname] = cmd
    res.setdefault('ll', {})[vname] = None
    res.setdefault('_lltext', {})[vname] = lltexts

def trace_for(cmd, prop, timeout, mem_gb):
    """Re-run CBMC for one failing property with --trace; return (draws, excerpt)."""
    # no slicing here: a sliced formula drops draws the property does not depend on and the stream would misalign
    cmd = [c for c in cmd if c != '--slice-formula']
    rc, out, dt = run(cmd + ['--property', prop, '--trace'], timeout=timeout, mem_gb=mem_gb)
    draws = [int(x) for x in re.findall(r'^\s+__draw=(\d+)', out, re.M)]
    return draws, out, dt

def first_failure_trace(cmd, timeout, mem_gb):
    """C18: one counterexample for whichever check fails first (--stop-on-fail); returns (draws, violated description, output)."""
    cmd = [c for c in cmd if c != '--slice-formula']
    rc, out, dt = run(cmd + ['-DVERIF_NOWITNESS', '--stop-on-fail', '--trace'], timeout=timeout, mem_gb=mem_gb)
    draws = [int(x) for x in re.findall(r'^\s+__draw=(\d+)', out, re.M)]
    m = re.search(r'Violated property:\s*\n\s*file (\S+) function (\S+) line (\d+).*\n\s*(.*)\n', out)
    desc = m.group(4).strip() if m else ''
    fn = m.group(2) if m else ''
    return draws, desc, fn, out, dt

def native_replay(job, work, inc, draws, tag, sanitize=False):
    """Build harness.cpp natively (real header, no translation) and feed it the recorded choice stream."""
    wd = os.path.join(work, 'replay-' + tag); os.makedirs(wd, exist_ok=True)
    f = os.path.join(wd, 'draws.txt'); open(f, 'w').write(' '.join(map(str, draws)) + '\n')
    outs = []
    san = ['-fsanitize=undefined,address', '-fno-sanitize-recover=undefined', '-g'] if sanitize else []
    for cc, cxx, opt in (('gcc', 'g++', '-O0'), ('clang-14', 'clang++-14', '-O2')):
        exe = os.path.join(wd, 'replay-%s%s' % (cxx, opt))
        err = build_native(job, wd, inc, exe, cxx=cxx, cc=cc, opt=opt, san=san)
        if err: return None, err
        rc, out, _ = run([exe, 'replay', f], timeout=60)
        outs.append((cxx + opt, rc, out))
    return outs, None

MEM_BUDGET_GB = float(os.environ.get('VERIF_MEM_GB', '44'))
_mem_cv = threading.Condition(); _mem_used = [0.0]

def _run_weighted(job, work, seed):
    w = min(float(getattr(job, 'weight_gb', 1.0)), MEM_BUDGET_GB)
    with _mem_cv:
        while _mem_used[0] + w > MEM_BUDGET_GB and _mem_used[0] > 0: _mem_cv.wait()
        _mem_used[0] += w
    try:
        return run_job(job, work, seed)
    finally:
        with _mem_cv:
            _mem_used[0] -= w; _mem_cv.notify_all()

def run_jobs(jobs, work, seed=0, workers=None, progress=None):
    workers = workers or max(2, NCPU - 2)
    results = [None] * len(jobs)
    order = sorted(range(len(jobs)), key=lambda i: -float(getattr(jobs[i], 'weight_gb', 1.0)))
    with ThreadPoolExecutor(max_workers=workers) as ex:
        futs = {ex.submit(_run_weighted, jobs[i], work, seed): i for i in order}
        for f in as_completed(futs):
            i = futs[f]; results[i] = f.result()
            if progress: progress(jobs[i], results[i])
    return results

/* Native runtime: drives harness() with (a) LCG pseudo-random choice streams, one forked child per
 * seed (translator validation: the translated C and the native C++ build must print identical
 * lines), or (b) a recorded choice stream from a CBMC counterexample (replay). */
#include <stdio.h>
#include <stdint.h>
#include <stdlib.h>
#include <string.h>
#include <unistd.h>
#include <sys/wait.h>
static uint32_t s; static int mode; /* 0 random, 1 replay */
static int *rp; static long rn, ri;
static int nfail, nub, nev;
static uint8_t draw(void) {
  if (mode == 1) { if (ri < rn) return (uint8_t)rp[ri++]; ri++; return 0; }
  s = s * 1103515245u + 12345u; return (uint8_t)(s >> 16);
}
static void finish(int code) {
  printf(" | fails=%d ub=%d draws=%ld end=%d\n", nfail, nub, ri, code); fflush(stdout);
  _exit((nfail || nub) ? 1 : 0);
}
uint8_t nondet_u8(void) { if (mode == 0) ri++; return draw(); }
uint8_t nondet_below(uint8_t n) {
  if (mode == 0) ri++;
  uint8_t v = draw();
  if (mode == 1) { if (v >= n) { printf(" ASSUME-STOP(below)"); finish(2); } return v; }
  return n ? (uint8_t)(v % n) : 0;
}
uint32_t nondet_u32(void) { uint32_t r = 0; for (int i = 0; i < 4; i++) { if (mode == 0) ri++; r |= ((uint32_t)draw()) << (8 * i); } return r; }
void nondet_fill(uint8_t* p, uint64_t n) { for (uint64_t i = 0; i < n; i++) { if (mode == 0) ri++; p[i] = draw(); } }
void vassert(uint32_t c, uint32_t id) { if (!c) { nfail++; printf(" FAIL:%d", id); } }
void vassume(uint32_t c) { if (!c) { printf(" ASSUME-STOP"); finish(2); } }
void vwitness(uint32_t id) { printf(" W:%d", id); }
void vub(const char* m) { nub++; printf(" UB:%s", m); finish(3); }
void vrec(uint32_t a, uint32_t b) { if (nev++ < 400) printf(" %d:%d", a, b); }
int harness(void);
int main(int argc, char** argv) {
  setvbuf(stdout, NULL, _IONBF, 0);      /* a replay may hang or crash in the code under test: keep what was reported */
  if (argc >= 3 && !strcmp(argv[1], "replay")) {
    FILE* f = fopen(argv[2], "r"); if (!f) { perror("replay"); return 2; }
    long cap = 1 << 16; rp = malloc(sizeof(int) * cap); int v;
    while (rn < cap && fscanf(f, "%d", &v) == 1) rp[rn++] = v;
    fclose(f); mode = 1; printf("replay:"); int r = harness(); finish(r ? 4 : 0);
  }
  long seed0 = argc > 1 ? atol(argv[1]) : 1, cnt = argc > 2 ? atol(argv[2]) : 1;
  for (long k = 0; k < cnt; k++) {
    fflush(stdout);
    pid_t p = fork();
    if (p == 0) { s = (uint32_t)(seed0 + k) * 2654435761u + 12345u; printf("seed %ld:", seed0 + k); int r = harness(); finish(r ? 4 : 0); }
    int st; waitpid(p, &st, 0);
    if (WIFSIGNALED(st)) { printf(" | SIGNAL %d\n", WTERMSIG(st)); }
  }
  return 0;
}

/* byte-wise helpers with their own loop ids (vmem_equal.0 / vmem_copy.0) so that their bound can be set independently */
uint32_t vmem_equal(const uint8_t* a, const uint8_t* b, uint64_t n) { uint32_t e = 1; for (uint64_t i = 0; i < n; i++) e = e & (a[i] == b[i]); return e; }
void vmem_copy(uint8_t* d, const uint8_t* s, uint64_t n) { for (uint64_t i = 0; i < n; i++) d[i] = s[i]; }

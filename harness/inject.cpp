// C15 harness: injected base behaviours wrap the state's own callbacks in LIFO order.
// The state at position POS (of 3) is declared StateT<Inj<1>..Inj<NINJ>>; every injection and the state record
// their deliveries.  Order table of the statement: I1..Ik,state for entryGuard, enter, reenter, preUpdate, update,
// preReact, react; state,Ik..I1 for exit, postUpdate, postReact; each exactly once per delivery.
// exitGuard and query are delivered too but their order is not part of the statement: only counted.
#define FFSM2_DISABLE_TYPEINDEX
#include "vrt.h"
#include <ffsm2/machine.hpp>
#ifndef NINJ
#define NINJ 3
#endif
#ifndef POS
#define POS 0
#endif
#ifndef KSTEPS
#define KSTEPS 3
#endif
using M = ffsm2::Machine;
struct S0; struct S1; struct S2;
using FSM = M::PeerRoot<S0, S1, S2>;
enum { ENTRYGUARD, ENTER, REENTER, PREUPDATE, UPDATE, PREREACT, REACT, EXIT, POSTUPDATE, POSTREACT, EXITGUARD, QUERY, NKINDS };
static int cur_kind = -1, cnt = 0;             // delivery in progress and how many of its callbacks ran
static int delivered[NKINDS];                  // completed deliveries in the current API call
static bool forward_kind(int k) { return k <= REACT; }
// who: 1..NINJ injection, NINJ+1 the state itself
static int xcnt[NKINDS];                       // exitGuard / query: participants seen in the delivery in progress (order not fixed)
static void hit(int kind, int who) {
  vrec(kind, who);
  if (kind == EXITGUARD || kind == QUERY) {      // every participant exactly once per delivery; the order is not part of the statement
    vassert(cnt == 0, 1502);
    xcnt[kind]++; if (xcnt[kind] == NINJ + 1) { delivered[kind]++; xcnt[kind] = 0; }
    return; }
  vassert(xcnt[EXITGUARD] == 0 && xcnt[QUERY] == 0, 1502);
  if (cnt == 0) { vassert(cur_kind == -1, 1501); cur_kind = kind; }
  vassert(cur_kind == kind, 1502);                                         // deliveries do not interleave
  if (forward_kind(kind)) vassert(who == cnt + 1, 1503);                   // I1..Ik, then the state
  else vassert(who == (cnt == 0 ? NINJ + 1 : NINJ + 1 - cnt), 1504);       // the state, then Ik..I1
  cnt++;
  if (cnt == NINJ + 1) { delivered[kind]++; cnt = 0; cur_kind = -1; }      // each exactly once per delivery
}
static void maybe_request(FSM::FullControl& c) { unsigned char k = nondet_u8(); if (k & 1) c.changeTo(nondet_below(3)); }
template <int Q> struct Inj : FSM::State {
  // injected guards are user code too: they may veto (symbolic), which must not stop the remaining participants from being invoked
  void entryGuard(GuardControl& c) { hit(ENTRYGUARD, Q); if (nondet_u8() & 1) c.cancelPendingTransition(); }
  void enter(PlanControl&) { hit(ENTER, Q); } void reenter(PlanControl&) { hit(REENTER, Q); }
  void preUpdate(FullControl&) { hit(PREUPDATE, Q); } void update(FullControl& c) { hit(UPDATE, Q); maybe_request(c); } void postUpdate(FullControl&) { hit(POSTUPDATE, Q); }
  void preReact(const int&, FullControl&) { hit(PREREACT, Q); } void react(const int&, FullControl&) { hit(REACT, Q); } void postReact(const int&, FullControl&) { hit(POSTREACT, Q); }
  void query(int&, ConstControl&) const { hit(QUERY, Q); }
  void exitGuard(GuardControl& c) { hit(EXITGUARD, Q); if (nondet_u8() & 1) c.cancelPendingTransition(); } void exit(PlanControl&) { hit(EXIT, Q); }
};
#if NINJ == 0
typedef FSM::State TargetBase;
#elif NINJ == 1
typedef FSM::StateT<Inj<1>> TargetBase;
#elif NINJ == 2
typedef FSM::StateT<Inj<1>, Inj<2>> TargetBase;
#else
typedef FSM::StateT<Inj<1>, Inj<2>, Inj<3>> TargetBase;
#endif
struct Target : TargetBase {
  void entryGuard(GuardControl& c) { hit(ENTRYGUARD, NINJ + 1); unsigned char k = nondet_u8(); if (k & 1) c.cancelPendingTransition(); }
  void enter(PlanControl&) { hit(ENTER, NINJ + 1); } void reenter(PlanControl&) { hit(REENTER, NINJ + 1); }
  void preUpdate(FullControl&) { hit(PREUPDATE, NINJ + 1); } void update(FullControl& c) { hit(UPDATE, NINJ + 1); maybe_request(c); } void postUpdate(FullControl&) { hit(POSTUPDATE, NINJ + 1); }
  void preReact(const int&, FullControl&) { hit(PREREACT, NINJ + 1); } void react(const int&, FullControl& c) { hit(REACT, NINJ + 1); maybe_request(c); } void postReact(const int&, FullControl&) { hit(POSTREACT, NINJ + 1); }
  void query(int&, ConstControl&) const { hit(QUERY, NINJ + 1); }
  void exitGuard(GuardControl&) { hit(EXITGUARD, NINJ + 1); } void exit(PlanControl&) { hit(EXIT, NINJ + 1); }
};
struct Plain : FSM::State { void update(FullControl& c) { maybe_request(c); } };
#if POS == 0
struct S0 : Target {}; struct S1 : Plain {}; struct S2 : Plain {};
#elif POS == 1
struct S0 : Plain {}; struct S1 : Target {}; struct S2 : Plain {};
#else
struct S0 : Plain {}; struct S1 : Plain {}; struct S2 : Target {};
#endif
static void reset() { for (int k = 0; k < NKINDS; ++k) delivered[k] = 0; }
static void boundary() { vassert(cur_kind == -1 && cnt == 0 && xcnt[EXITGUARD] == 0 && xcnt[QUERY] == 0, 1505); }    // no delivery left half done

extern "C" int harness(void) {
  reset();
  FSM::Instance m;
  boundary();
  if (POS == 0) { vassert(delivered[ENTRYGUARD] == 1 && delivered[ENTER] == 1, 1506); } else vassert(delivered[ENTER] == 0, 1506);
  unsigned witnessed = 0;
  for (int s = 0; s < KSTEPS; ++s) {
    reset();
    const bool was = m.activeStateId() == POS;
    unsigned char op = nondet_u8();
    if (op == 0) { m.update(); if (was) vassert(delivered[PREUPDATE] == 1 && delivered[UPDATE] == 1 && delivered[POSTUPDATE] == 1, 1507);
                   else vassert(delivered[PREUPDATE] + delivered[UPDATE] + delivered[POSTUPDATE] == 0, 1508); }
    else if (op == 1) { int ev = 3; m.react(ev); if (was) vassert(delivered[PREREACT] == 1 && delivered[REACT] == 1 && delivered[POSTREACT] == 1, 1507);
                        else vassert(delivered[PREREACT] + delivered[REACT] + delivered[POSTREACT] == 0, 1508); }
    else if (op == 2) { int ev = 3; const FSM::Instance& cm = m; cm.query(ev); vassert(delivered[QUERY] == (was ? 1 : 0), 1509); }
    else { m.immediateChangeTo(static_cast<ffsm2::StateID>(nondet_below(3))); }
    boundary();
    const bool is = m.activeStateId() == POS;
    if (was && !is) vassert(delivered[EXIT] == 1 && delivered[ENTER] == 0 && delivered[REENTER] == 0, 1510);
    if (!was && is) vassert(delivered[ENTER] == 1 && delivered[EXIT] == 0 && delivered[REENTER] == 0, 1510);
    if (!was && !is) vassert(delivered[ENTER] + delivered[EXIT] + delivered[REENTER] == 0, 1510);
    if (was && is) vassert(delivered[ENTER] == 0 && delivered[EXIT] == 0 && delivered[REENTER] <= 1, 1510);
    if (delivered[REENTER]) witnessed |= 1; if (delivered[EXIT]) witnessed |= 2; if (delivered[POSTREACT]) witnessed |= 4;
  }
  if (witnessed == 7) vwitness(9002);       // reenter, exit and postReact deliveries are all reachable in one history
  vwitness(9001);
  reset();
  return 0;
}

#!/usr/bin/python3
"""Evaluate one seeded change: tools/seedtest.py <dir with patch.diff, demo.cpp> <property> [more properties...]

1. in a scratch worktree of /repo (outside /repo and /verif): apply the patch, build + run the unedited test suite,
   build the demonstration with and without the patch (must fail / pass);
2. apply the patch to /repo itself, run ./check <property> --tier quick for each property given, undo the patch;
3. print (and return as JSON) what happened.  The scratch worktree and its build output are removed."""
import os, sys, json, subprocess, tempfile, shutil, time
HERE = os.path.dirname(os.path.dirname(os.path.abspath(__file__)))
REPO = '/repo'

def sh(cmd, cwd=None, timeout=3600):
    p = subprocess.run(cmd, shell=True, cwd=cwd, stdout=subprocess.PIPE, stderr=subprocess.STDOUT, timeout=timeout)
    return p.returncode, p.stdout.decode('utf-8', 'replace')

def main():
    d = os.path.abspath(sys.argv[1]); props = sys.argv[2:]
    tier = os.environ.get('SEED_TIER', 'quick')
    patch = os.path.join(d, 'patch.diff'); demo = os.path.join(d, 'demo.cpp')
    res = dict(dir=d, properties=props, steps=[])
    phase = os.environ.get('SEED_PHASE', 'all')     # 'verify' (scratch worktree only), 'check' (/repo only; needs an earlier verify), 'all'
    sj = os.path.join(d, 'seedtest.json')
    if phase == 'check':
        res = json.load(open(sj)); res['properties'] = props
        assert res.get('applies') and res.get('suite_passes_with_patch') and res.get('demo_ok'), 'verify phase did not confirm this change'
        return check_phase(res, d, props, tier, patch)
    rc, out = sh('git -C %s status --porcelain --untracked-files=no' % REPO)
    if out.strip() and phase != 'verify': print('REFUSING: /repo has local modifications:\n' + out); return 2
    wt = tempfile.mkdtemp(prefix='seed-wt-', dir='/tmp')
    try:
        sh('git -C %s worktree add -f %s HEAD' % (REPO, wt))
        rc, out = sh('git -C %s apply --check %s' % (wt, patch))
        res['applies'] = rc == 0
        if rc != 0: print('patch does not apply to /repo HEAD:\n' + out); print(json.dumps(res)); return 2
        # demo without the patch
        rc0c, o0c = sh('g++ -std=c++11 -I%s/include %s -o %s/demo_orig' % (wt, demo, wt))
        rc0, o0 = sh('%s/demo_orig' % wt, timeout=120) if rc0c == 0 else (999, o0c)
        sh('git -C %s apply %s' % (wt, patch))
        # header consistency: is the shipped header still the amalgamation of development/ ?
        sh('cp include/ffsm2/machine.hpp %s.hdr-before.hpp && cd tools && python3 join.py' % wt, cwd=wt)
        rcj, oj = sh('cmp include/ffsm2/machine.hpp %s.hdr-before.hpp' % wt, cwd=wt)
        res['patch_keeps_header_in_sync'] = rcj == 0
        sh('cp %s.hdr-before.hpp include/ffsm2/machine.hpp; rm -f %s.hdr-before.hpp' % (wt, wt), cwd=wt)
        rcb, ob = sh('cmake -S . -B _build -G Ninja >/dev/null && cmake --build _build 2>&1 | tail -4', cwd=wt, timeout=3600)
        res['suite_passes_with_patch'] = 'Status: SUCCESS' in ob and 'test cases:   21 |   21 passed' in ob
        rc1c, o1c = sh('g++ -std=c++11 -I%s/include %s -o %s/demo_patched' % (wt, demo, wt))
        rc1, o1 = sh('%s/demo_patched' % wt, timeout=120) if rc1c == 0 else (999, o1c)
        res['demo_without_patch_rc'] = rc0; res['demo_with_patch_rc'] = rc1
        res['demo_ok'] = (rc0 == 0 and rc1 != 0)
        res['demo_output_with_patch'] = o1[-400:]
    finally:
        sh('git -C %s worktree remove --force %s' % (REPO, wt)); shutil.rmtree(wt, ignore_errors=True)
    print('applies=%s suite_passes=%s demo(orig rc=%s, patched rc=%s) header_in_sync=%s' % (res['applies'], res['suite_passes_with_patch'], rc0, rc1, res['patch_keeps_header_in_sync']), flush=True)
    if phase == 'verify':
        json.dump(res, open(sj, 'w'), indent=1); return 0
    return check_phase(res, d, props, tier, patch)

def check_phase(res, d, props, tier, patch):
    # run the checks against /repo with the patch applied
    rc, out = sh('git -C %s status --porcelain --untracked-files=no' % REPO)
    if out.strip(): print('REFUSING: /repo has local modifications:\n' + out); return 2
    res['checks'] = {}
    sh('git -C %s apply %s' % (REPO, patch))
    try:
        for p in props:
            t0 = time.time()
            only = os.environ.get('SEED_ONLY', '')
            rc, out = sh('./check %s --tier %s%s' % (p, tier, (' --only ' + only) if only else ''), cwd=HERE, timeout=4 * 3600)
            lines = [l for l in out.split('\n') if l.startswith('VIOLATION') or l.startswith('  violated') or l.startswith('INCONCLUSIVE') or l.startswith('check ') or l.startswith('KNOWN')]
            res['checks'][p] = dict(rc=rc, wall_s=round(time.time() - t0), only=os.environ.get('SEED_ONLY', ''), lines=[l[:300] for l in lines[:14]])
            print('%s rc=%d %ds' % (p, rc, time.time() - t0)); print('\n'.join('   ' + l[:260] for l in lines[:10]), flush=True)
    finally:
        sh('git -C %s checkout -- .' % REPO)
    rc, out = sh('git -C %s status --porcelain --untracked-files=no' % REPO)
    assert not out.strip(), 'repo not clean after undo: ' + out
    json.dump(res, open(os.path.join(d, 'seedtest.json'), 'w'), indent=1)
    return 0

if __name__ == '__main__':
    sys.exit(main())

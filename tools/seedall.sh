#!/bin/bash
# re-evaluate every seeded change against the check of its property (applies each patch to /repo, runs, undoes)
cd "$(dirname "$0")/.."
mkdir -p out/logs
for d in seeded/C*/; do
  d=${d%/}; p=$(basename $d | cut -c1-3)
  extra=""
  python3 tools/seedtest.py $d $p $extra > out/logs/seed-$(basename $d).log 2>&1
  echo "$(basename $d): $(grep -E "^$p rc=" out/logs/seed-$(basename $d).log)"
done

// C19 regeneration-step probe: a TU that exercises the public API under whatever FFSM2_ENABLE_* / FFSM2_DISABLE_*
// switches are passed on the command line; compiled -fsyntax-only for all 2^8 switch sets (+FFSM2_ENABLE_ALL) x
// {c++11,14,17,20} x {g++, clang++}.  Manual and automatic activation, payload and payload-free configurations.
#if defined(FFSM2_ENABLE_PLANS) || defined(FFSM2_ENABLE_ALL)
#define P_PLANS 1
#else
#define P_PLANS 0
#endif
#if defined(FFSM2_ENABLE_SERIALIZATION) || defined(FFSM2_ENABLE_ALL)
#define P_SERIAL 1
#else
#define P_SERIAL 0
#endif
#if defined(FFSM2_ENABLE_TRANSITION_HISTORY) || defined(FFSM2_ENABLE_ALL)
#define P_HISTORY 1
#else
#define P_HISTORY 0
#endif
#if defined(FFSM2_ENABLE_LOG_INTERFACE) || defined(FFSM2_ENABLE_VERBOSE_DEBUG_LOG)
#define P_LOG 1
#else
#define P_LOG 0
#endif
#include <ffsm2/machine.hpp>
namespace probe_void {
using M = ffsm2::Machine;
struct A; struct B; struct R;
using FSM = M::Root<R, A, B>;
struct R : FSM::State {
#if P_PLANS
  void planSucceeded(FullControl&) {} void planFailed(FullControl&) {}
#endif
};
struct A : FSM::State { void entryGuard(GuardControl& c) { c.cancelPendingTransition(); c.changeTo<B>(); } void enter(PlanControl&) {} void update(FullControl& c) { c.changeTo<B>();
#if P_PLANS
  c.plan().change<A, B>(); c.succeed(); c.fail();
#endif
} void react(const int&, FullControl&) {} void query(int&, ConstControl&) const {} void exitGuard(GuardControl&) {} void exit(PlanControl&) {} };
struct B : FSM::State {};
inline int use() {
#if P_LOG
  struct L : M::LoggerInterface {} lg; FSM::Instance m{&lg}; m.attachLogger(nullptr);
#else
  FSM::Instance m;
#endif
  m.update(); int e = 0; m.react(e); m.query(e); m.changeTo<B>(); m.immediateChangeTo<A>(); m.changeTo(1); m.immediateChangeTo(0);
  int r = m.activeStateId() + m.isActive<A>() + m.isActive(1) + FSM::stateId<B>() + (&m.access<A>() != nullptr);
#if P_PLANS
  m.plan().change<A, B>(); m.plan().clear(); m.succeed<A>(); m.fail(1); { auto p = m.plan(); for (auto it = p.begin(); it; ++it) it.remove(); }
#endif
#if P_HISTORY
  r += m.previousTransition().destination; m.replayTransition(1);
#endif
#if P_SERIAL
  FSM::Instance::SerialBuffer b; m.save(b); m.load(b);
#endif
  FSM::Instance c{m}; r += c.activeStateId();
  return r;
}
}
namespace probe_payload {
struct P { int x; };
using M = ffsm2::MachineT<ffsm2::Config::ManualActivation::PayloadT<P>::ContextT<int&>::SubstitutionLimitN<3>>;
struct A; struct B;
using FSM = M::PeerRoot<A, B>;
struct A : FSM::State { void update(FullControl& c) { c.changeWith<B>(P{1}); c.changeWith(1, P{2});
#if P_PLANS
  c.plan().changeWith<A, B>(P{3});
#endif
} void entryGuard(GuardControl& c) { (void)c.pendingTransition().payload(); (void)c.currentTransition(); } };
struct B : FSM::State {};
inline int use() {
  int ctx = 0; FSM::Instance m{ctx}; m.enter(); m.update(); m.changeWith<B>(P{4}); m.immediateChangeWith(0, P{5}); int r = m.isActive() + m.context();
#if P_HISTORY
  r += m.previousTransition().payload() ? m.previousTransition().payload()->x : 0; FSM::Instance n{ctx}; n.replayEnter(1); n.exit();
#endif
#if P_SERIAL
  FSM::Instance::SerialBuffer b; m.save(b); FSM::Instance l{ctx}; l.load(b); if (l.isActive()) l.exit();
#endif
  m.exit();
  return r;
}
}
int main() { return probe_void::use() + probe_payload::use(); }

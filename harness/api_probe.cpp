// Public-interface probe, compiled WITH access control (no -fno-access-control): what C20/C10 rely on must be
// expressible through the containers' own public members.  Syntax-only; part of the regeneration step.
#define FFSM2_ENABLE_PLANS
#define FFSM2_ENABLE_SERIALIZATION
#include <ffsm2/machine.hpp>
using namespace ffsm2::detail;
int probe() {
  int s = 0;
  StaticArrayT<int, 4> a; a.fill(3); a[1] = 4; for (auto& x : a) s += x; for (auto it = a.cbegin(); it != a.cend(); ++it) s += *it; s += a.empty(); a.clear();
  DynamicArrayT<int, 4> d; d.emplace(1); d += 2; for (auto& x : d) s += x; s += d.count(); d.clear();
  BitArrayT<12> b; b.set(); b.clear(3u); s += b.get(2u); b.set(3u); b.clear(); s += b.empty(); BitArrayT<12> c; b &= c;
  StreamBufferT<20> sb; BitWriteStreamT<20> w{sb}; w.write<3>(5); BitReadStreamT<20> r{sb}; s += r.read<3>();
  return s;
}

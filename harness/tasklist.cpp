// C10 kernel harness: TaskListT (free list) and PlanT (ordered task list on top of it).
//   MODE 0  inductive step on the plan data of a real machine: arbitrary free-list / plan-list state under the
//           representation invariant I, ONE operation (append / iterator-remove at a symbolic position while
//           iterating / clear) with symbolic arguments; post: I again, capacity exact, order preserved.
//   MODE 1  base case + bounded history: K operations from a freshly constructed machine, no invariant needed;
//           shows "full capacity available again once empty".
//   MODE 2  TaskListT alone (emplace/remove), inductive.
#define FFSM2_DISABLE_TYPEINDEX
#define FFSM2_ENABLE_PLANS
#ifndef SERIAL
#define SERIAL 0     // 1: histories may save()/load() the machine (load clears the plan data without unlinking task by task)
#endif
#if SERIAL
#define FFSM2_ENABLE_SERIALIZATION
#endif
#include "vrt.h"
#include <ffsm2/machine.hpp>
#ifndef CAP
#define CAP 3
#endif
#ifndef MODE
#define MODE 0
#endif
#ifndef KSTEPS
#define KSTEPS (2 * CAP + 2)
#endif
#ifndef PAYLOAD
#define PAYLOAD 0
#endif
using namespace ffsm2; using namespace ffsm2::detail;
#ifndef MANUAL
#define MANUAL 0     // 1: manual activation, so that histories can deactivate and re-activate the machine (PlanData::clear)
#endif
#if MANUAL
typedef Config::ManualActivation BaseCfg;
#else
typedef Config BaseCfg;
#endif
#if PAYLOAD
struct Pay { unsigned v; };
using M = MachineT<BaseCfg::TaskCapacityN<CAP>::PayloadT<Pay>>;
#else
using M = MachineT<BaseCfg::TaskCapacityN<CAP>>;
#endif
struct A; struct B; struct C;
using FSM = M::PeerRoot<A, B, C>;
struct A : FSM::State {}; struct B : FSM::State {}; struct C : FSM::State {};
typedef FSM::Instance Inst;
static const Long INV = INVALID_LONG;
#define NST 3

// ---- representation invariant of TaskListT; occ[] = ghost set of occupied slots
template <typename TL>
static bool inv_tasks(const TL& t, const bool* occ) {
  int cnt = 0; for (int i = 0; i < CAP; i++) cnt += occ[i] ? 1 : 0;
  if (t._count != cnt) return false;
  if (t._last > CAP) return false;
  bool onfree[CAP]; for (int i = 0; i < CAP; i++) onfree[i] = false;
  if (t._count < CAP) {
    if (t._vacantHead >= CAP || t._vacantTail >= CAP) return false;
    if (t._items[t._vacantHead].prev != INV) return false;
    if (t._items[t._vacantTail].next != INV) return false;
    Long c = t._vacantHead; bool reached = false;
    for (int s = 0; s < CAP; s++) {
      if (!reached) {
        if (occ[c] || onfree[c]) return false;
        onfree[c] = true;
        if (c == t._vacantTail) reached = true;
        else { Long n = t._items[c].next; if (n >= CAP) return false; if (t._items[n].prev != c) return false; c = n; }
      }
    }
    if (!reached) return false;
  } else { if (t._vacantHead != INV || t._vacantTail != INV) return false; if (t._last != CAP) return false; }
  for (int i = 0; i < CAP; i++) { bool untouched = i > t._last; if ((occ[i] ? 1 : 0) + (onfree[i] ? 1 : 0) + (untouched ? 1 : 0) != 1) return false; }
  if (t._last < CAP && t._count < CAP && t._vacantTail != t._last) return false;
  return true;
}

// ---- invariant of the plan list over the task list; seq[] receives the slots in plan order
template <typename PD>
static bool inv_plan(const PD& pd, const bool* occ, Long* seq, int& n) {
  n = 0;
  const Long first = pd.tasksBounds.first, last = pd.tasksBounds.last;
  bool onplan[CAP]; for (int i = 0; i < CAP; i++) onplan[i] = false;
  if (first == INV) { if (last != INV) return false; }
  else {
    if (first >= CAP || last >= CAP) return false;
    if (pd.taskLinks._items[first].prev != INV) return false;
    if (pd.taskLinks._items[last].next != INV) return false;
    Long c = first; bool reached = false;
    for (int s = 0; s < CAP; s++) {
      if (!reached) {
        if (!occ[c] || onplan[c]) return false;
        onplan[c] = true; seq[n++] = c;
        if (c == last) reached = true;
        else { Long nx = pd.taskLinks._items[c].next; if (nx >= CAP) return false; if (pd.taskLinks._items[nx].prev != c) return false; c = nx; }
      }
    }
    if (!reached) return false;
  }
  for (int i = 0; i < CAP; i++) {
    if (occ[i] != onplan[i]) return false;
    if (!occ[i] && (pd.taskLinks._items[i].prev != INV || pd.taskLinks._items[i].next != INV)) return false;
  }
  return true;
}

#if MODE != 2
static Inst* g;
static int mo[CAP + 1], md[CAP + 1], mn;       // reference model: (origin, destination) in append order
#if PAYLOAD
static unsigned mp[CAP + 1]; static bool mhp[CAP + 1];
#endif

static void read_model_from_plan() {
  mn = 0;
  auto pl = g->plan();
  for (auto it = pl.begin(); it; ++it) { if (mn < CAP) { mo[mn] = it->origin; md[mn] = it->destination;
#if PAYLOAD
    mhp[mn] = it->payload() != 0; mp[mn] = it->payload() ? it->payload()->v : 0;
#endif
    } mn++; if (mn > CAP) break; }
}

template <int base> static void check_plan_equals_model() {      // (template: assertion ids must be compile-time constants)
  int i = 0;
  auto pl = g->plan();
  for (auto it = pl.begin(); it; ++it) {
    vassert(i < mn, base + 0);                                                   // no task appears that was not appended
    if (i < mn) { vassert(it->origin == mo[i] && it->destination == md[i], base + 1);   // append order
#if PAYLOAD
      vassert((it->payload() != 0) == mhp[i], base + 1); if (it->payload() && mhp[i]) vassert(it->payload()->v == mp[i], base + 1);
#endif
    }
    ++i; if (i > CAP) break; }
  vassert(i == mn, base + 2);                                                    // precisely the tasks not yet removed
  vassert(bool(g->plan()) == (mn > 0), base + 3);                               // emptiness test consistent
  { const Inst* cg = g; vassert(bool(cg->plan()) == (mn > 0), base + 3); }
  if (mn > 0) { vassert(g->plan().first().origin == mo[0] && g->plan().first().destination == md[0], base + 4);
                vassert(g->plan().last().origin == mo[mn - 1] && g->plan().last().destination == md[mn - 1], base + 4); }
}

static void one_operation(bool inductive) {
  unsigned char op = nondet_u8();
  if (op == 0) {                                            // append
    int o = nondet_below(NST), d = nondet_below(NST);
    const Long count_before = g->_core.planData.tasks.count();
    bool ok;
#if PAYLOAD
    bool withp = nondet_u8() & 1; Pay p; p.v = nondet_u32();
    if (withp) ok = g->plan().changeWith(o, d, p); else
#endif
    ok = g->plan().change(o, d);
    vassert(ok == (mn < CAP), 1001);                        // succeeds exactly when fewer than capacity tasks are present
    if (ok) { mo[mn] = o; md[mn] = d;
#if PAYLOAD
      mhp[mn] = withp; mp[mn] = p.v;
#endif
      mn++; }
    else vassert(g->_core.planData.tasks.count() == count_before, 1002);   // ... otherwise leaves the plan untouched (sequence re-checked below)
  } else if (op == 1) {                                     // remove through an iterator at a symbolic position, keep iterating
    int p = nondet_u8(); int i = 0;
    auto pl = g->plan();
    for (auto it = pl.begin(); it; ++it) {
      if (i < mn) vassert(it->origin == mo[i] && it->destination == md[i], 1003);   // removal does not disturb iteration over the rest
      if (i == p) it.remove();
      ++i; if (i > CAP) break; }
    vassert(i == mn, 1004);
    if (p < mn) { for (int k = 0; k < CAP; ++k) if (k >= p && k + 1 < mn) { mo[k] = mo[k + 1]; md[k] = md[k + 1];
#if PAYLOAD
        mhp[k] = mhp[k + 1]; mp[k] = mp[k + 1];
#endif
      } mn--; }
  } else if (op == 2) { g->plan().clear(); mn = 0; }
  else if (op == 3 && !inductive) { g->update(); }           // consumption / outcome clearing are exercised by the plan harness (C08/C09)
#if MANUAL
  else if (op == 4 && !inductive) { g->exit(); g->enter(); mn = 0; }     // deactivation clears the plan; the slots must all be reusable afterwards
#endif
#if SERIAL
  else if (op == 5 && !inductive) { Inst::SerialBuffer b; { const Inst* cg = g; cg->save(b); } g->load(b); mn = 0; }   // load() clears the plan
#endif
  (void)inductive;
}
#endif

extern "C" int harness(void) {
#if MODE == 0
  Inst m; g = &m;
  bool occ[CAP]; Long seq[CAP + 1]; int n = 0;
  auto& pd = m._core.planData;
  nondet_fill(&pd.tasks, sizeof pd.tasks); nondet_fill(&pd.taskLinks, sizeof pd.taskLinks); nondet_fill(&pd.tasksBounds, sizeof pd.tasksBounds);
#if PAYLOAD
  for (int i = 0; i < CAP; i++) pd.tasks._items[i].payloadSet = nondet_u8() & 1;     // a bool holds 0 or 1
#endif
  for (int i = 0; i < CAP; i++) occ[i] = nondet_u8() & 1;
  vassume(inv_tasks(pd.tasks, occ));
  vassume(inv_plan(pd, occ, seq, n));
  for (int i = 0; i < CAP; i++) if (occ[i]) vassume(pd.tasks._items[i].origin < NST && pd.tasks._items[i].destination < NST);
  pd.planExists = n > 0 || (nondet_u8() & 1);
  read_model_from_plan();
  vassert(mn == n, 1010);
  check_plan_equals_model<1020>();
  one_operation(true);
  // invariant re-established, with the occupied set the model predicts
  { bool occ2[CAP]; int cnt = 0; for (int i = 0; i < CAP; i++) occ2[i] = false;
    auto pl = m.plan(); int k = 0; for (auto it = pl.begin(); it; ++it) { Long c = it._curr; if (c < CAP) occ2[c] = true; if (++k > CAP) break; }
    Long seq2[CAP + 1]; int n2 = 0;
    vassert(inv_tasks(pd.tasks, occ2), 1005);
    vassert(inv_plan(pd, occ2, seq2, n2), 1006);
    vassert(n2 == mn && pd.tasks.count() == mn, 1007); (void)cnt; }
  check_plan_equals_model<1030>();
  vwitness(9001);
#elif MODE == 1
  Inst m; g = &m;
#if MANUAL
  m.enter();
#endif
  { bool occ[CAP]; for (int i = 0; i < CAP; i++) occ[i] = false; Long seq[CAP + 1]; int n = 0;
    vassert(inv_tasks(m._core.planData.tasks, occ), 1040); vassert(inv_plan(m._core.planData, occ, seq, n) && n == 0, 1041); }   // base case
  mn = 0;
  for (int s = 0; s < KSTEPS; ++s) { one_operation(false); check_plan_equals_model<1050>(); }
  // slots are reusable indefinitely: once the plan is empty the full capacity is available again
  m.plan().clear(); mn = 0;
  for (int k = 0; k < CAP; ++k) { bool ok = m.plan().change(k % NST, (k + 1) % NST); vassert(ok, 1060); mo[mn] = k % NST; md[mn] = (k + 1) % NST;
#if PAYLOAD
    mhp[mn] = false; mp[mn] = 0;
#endif
    mn++; }
  vassert(!m.plan().change(0, 1), 1061);
  check_plan_equals_model<1070>();
  vwitness(9001);
#if MANUAL
  m.exit();
#endif
#else
#if PAYLOAD
  typedef TaskListT<Pay, CAP> TL;
#else
  typedef TaskListT<void, CAP> TL;
#endif
  { TL fresh; bool occ[CAP]; for (int i = 0; i < CAP; i++) occ[i] = false; vassert(inv_tasks(fresh, occ), 1080); }
  TL t; bool occ[CAP];
  nondet_fill(&t, sizeof t); for (int i = 0; i < CAP; i++) occ[i] = nondet_u8() & 1;
  vassume(inv_tasks(t, occ));
  unsigned char op = nondet_u8();
  if (op == 0) { Long before = t._count; Long o = nondet_u8(), d = nondet_u8(); Long idx = t.emplace(o, d);
    if (before < CAP) { vassert(idx < CAP && !occ[idx], 1081); if (idx < CAP) { occ[idx] = true; vassert(t[idx].origin == o && t[idx].destination == d, 1082); } vassert(t.count() == before + 1, 1083); }
    else { vassert(idx == TL::INVALID, 1084); vassert(t.count() == before, 1083); } }
  else { Long i = nondet_u8(); vassume(i < CAP && occ[i]); Long before = t._count; t.remove(i); occ[i] = false; vassert(t.count() == before - 1, 1085); }
  vassert(inv_tasks(t, occ), 1086);
  vwitness(9001);
#endif
  return 0;
}

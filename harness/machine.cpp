// Machine-history / one-step-from-any-state harness (DESIGN.md 2.3, 5: C01-C07, C11).
// The REAL header is included; user callbacks are nondeterministic stubs; the monitor below holds the
// property assertions.  Assertion id = property*100 + k (C01: 1xx, C02: 2xx, ... C11: 11xx).
//
// Build parameters (-D): NSTATES, STATE_LIST (St<0>,...,St<N-1>), LIMIT, KSTEPS, HEAD (0/1), MANUAL (0/1),
//   PAYLOAD (0 none, else payload kind), CONTEXT (0 empty,1 value,2 reference,3 pointer), EVT (event type),
//   INDUCTIVE (0/1: start from an arbitrary invariant state instead of the constructed one),
//   OPS (bit mask of API operations offered per step), PINGPONG (guards always redirect),
//   FFSM2_ENABLE_* feature switches.
#ifndef FFSM2_DISABLE_TYPEINDEX
#define FFSM2_DISABLE_TYPEINDEX
#endif
#include "vrt.h"
#include <ffsm2/machine.hpp>

#ifndef NSTATES
#define NSTATES 3
#define STATE_LIST St<0>, St<1>, St<2>
#endif
#ifndef LIMIT
#define LIMIT 4
#endif
#ifndef KSTEPS
#define KSTEPS 2
#endif
#ifndef HEAD
#define HEAD 0
#endif
#ifndef MANUAL
#define MANUAL 0
#endif
#ifndef PAYLOAD
#define PAYLOAD 0
#endif
#ifndef CONTEXT
#define CONTEXT 0
#endif
#ifndef EVT
#define EVT 0
#endif
#ifndef INDUCTIVE
#define INDUCTIVE 0
#endif
#ifndef PINGPONG
#define PINGPONG 0
#endif
#ifndef OPS
#define OPS 0xFFFF
#endif
#ifndef INJECT
#define INJECT 0      // 1: every state is declared with an injected base whose guards are user code too (may veto / redirect)
#endif
#ifndef PROP
#define PROP 0          // 0: all monitors; n: only the monitor and assertion ids of property Cn
#endif
// PROP 18 (no UB): no functional monitor, but payloads are read the way user code reads them (monitor of C07)
#define PSEL(p) (PROP == 0 || PROP == (p) || (PROP == 18 && (p) == 7))
#define VA(c, id) do { if (PSEL((id) / 100)) vassert((c), (id)); } while (0)
#ifdef FFSM2_ENABLE_TRANSITION_HISTORY
#define HISTORY 1
#else
#define HISTORY 0
#endif
#ifdef FFSM2_ENABLE_SERIALIZATION
#define SERIAL 1
#else
#define SERIAL 0
#endif

enum { OP_UPDATE = 1, OP_REACT = 2, OP_QUERY = 4, OP_CHANGE = 8, OP_IMMEDIATE = 16, OP_REPLAY = 32, OP_SAVELOAD = 64, OP_EXIT = 128, OP_RELOCATE = 256 };

// ---- payload family (C07/C18): size x alignment; field bytes are symbolic, padding is never compared
template <typename T> static bool feq(const T& a, const T& b) { return a == b; }
template <typename T, unsigned N> static bool feq(const T (&a)[N], const T (&b)[N]) { bool e = true; for (unsigned i = 0; i < N; ++i) e = e && (a[i] == b[i]); return e; }
#define ANYF(f) nondet_fill(&(f), sizeof(f))
#if PAYLOAD == 1
struct Pay { unsigned char a; };
#define PAY_FIELDS(X) X(a)
#elif PAYLOAD == 2
struct Pay { unsigned short a; };
#define PAY_FIELDS(X) X(a)
#elif PAYLOAD == 3
struct Pay { unsigned a; };
#define PAY_FIELDS(X) X(a)
#elif PAYLOAD == 4
struct Pay { unsigned long long a; };
#define PAY_FIELDS(X) X(a)
#elif PAYLOAD == 5
struct Pay { unsigned a; unsigned short b; };
#define PAY_FIELDS(X) X(a) X(b)
#elif PAYLOAD == 6
struct Pay { unsigned char a[3]; };
#define PAY_FIELDS(X) X(a)
#elif PAYLOAD == 7
struct Pay { unsigned char a[5]; };
#define PAY_FIELDS(X) X(a)
#elif PAYLOAD == 8
struct Pay { unsigned char a[7]; };
#define PAY_FIELDS(X) X(a)
#elif PAYLOAD == 9
struct Pay { unsigned long long a, b; };
#define PAY_FIELDS(X) X(a) X(b)
#elif PAYLOAD == 10
struct Pay { unsigned char a[24]; };
#define PAY_FIELDS(X) X(a)
#elif PAYLOAD == 11
struct alignas(16) Pay { unsigned char a[16]; };
#define PAY_FIELDS(X) X(a)
#elif PAYLOAD == 12
struct Pay { unsigned short a; unsigned char b; };
#define PAY_FIELDS(X) X(a) X(b)
#elif PAYLOAD == 13
struct Pay { unsigned long long a; unsigned char b; };
#define PAY_FIELDS(X) X(a) X(b)
#elif PAYLOAD == 14
struct Pay { unsigned short a[3]; };
#define PAY_FIELDS(X) X(a)
#elif PAYLOAD == 15
struct alignas(8) Pay { unsigned char a[3]; };
#define PAY_FIELDS(X) X(a)
#elif PAYLOAD == 16
struct Pay { unsigned a[3]; };
#define PAY_FIELDS(X) X(a)
#endif

struct Ctx { unsigned tag; unsigned touched; };

// ---- event types for react()/query() (C05)
#if EVT == 0
typedef int Event;
#elif EVT == 1
#pragma pack(push, 1)
struct Event { unsigned char b[3]; };
#pragma pack(pop)
#else
struct Event { unsigned char b[40]; };
#endif

namespace cfg {
#ifdef FFSM2_ENABLE_PLANS
using C0 = ffsm2::Config::SubstitutionLimitN<LIMIT>::TaskCapacityN<2>;
#else
using C0 = ffsm2::Config::SubstitutionLimitN<LIMIT>;
#endif
#if CONTEXT == 1
using C1 = C0::ContextT<Ctx>;
#elif CONTEXT == 2
using C1 = C0::ContextT<Ctx&>;
#elif CONTEXT == 3
using C1 = C0::ContextT<Ctx*>;
#else
using C1 = C0;
#endif
#if MANUAL
using C2 = C1::ManualActivation;
#else
using C2 = C1;
#endif
#if PAYLOAD
using C3 = C2::PayloadT<Pay>;
#else
using C3 = C2;
#endif
}
using M = ffsm2::MachineT<cfg::C3>;
template <int I> struct St;
struct Rt;
#if HEAD
using FSM = M::Root<Rt, STATE_LIST>;
#else
using FSM = M::PeerRoot<STATE_LIST>;
#endif
typedef FSM::Instance Inst;
static const int INV = 255;
#define RMAX (LIMIT + 3)

// ------------------------------------------------------------------------------------------ monitor state
static Inst* g;
// the machine's own answers (defined after the state types are complete)
static int  g_active();
static bool g_is(int j);
static const void* g_ctx();
static Ctx*  ctx_addr;
static int   mon_active = -1;          // state whose enter() ran without a matching exit()
static bool  root_in = false;          // root enter() ran without exit()
static int   n_ent[NSTATES], n_ex[NSTATES];
enum { CALL_NONE, CALL_PROCESS, CALL_ACTIVATE, CALL_DEACTIVATE, CALL_NOGUARD, CALL_QUERY };
static int   call_kind = CALL_NONE;    // what API call is in progress
static int   call_before;              // active state when the call began
static int   n_enter, n_exit, n_reenter;
static bool  inside_guard;
static bool  guards_allowed = true;
static int   ph;                       // phase automaton position within update()/react()/query()
static int   ph_kind;                  // 1 update, 2 react, 3 query
static const Event* ev_ptr;
// guard rounds of the call in progress.  Only scalars: "cur" is the round being evaluated, "acc" the last
// round that survived its guards (= the transition accepted so far).
static int   rounds;
static bool  cur_open, cur_transition, cur_canc, cur_entry_seen; static int cur_dest, cur_org;
static bool  cur_exit_canc, cur_root_canc;      // the exit-guard phase / the root's guard of the current round cancelled
static bool  acc_valid; static int acc_dest, acc_org;
static unsigned surv_mask;             // destinations of surviving rounds
// request ledger: the most recent request made and not yet picked up by a guard round
static bool  led_valid, led_fresh; static int led_dest, led_org;
static int   led_round;                // guard round in which it was made (0: before any round of the current call, -1: before the call)
static bool  led_maybe;                // it may have been dropped as redundant or may be left over by the limit: both are in order
#if PAYLOAD
static bool  led_haspay; static Pay led_pay;
static bool  cur_haspay; static Pay cur_pay;
static bool  acc_haspay; static Pay acc_pay;
#define PAY_EQ1(f) e = e && feq(a.f, b.f);
#define PAY_ANY1(f) ANYF(p.f);
static bool  payeq(const Pay& a, const Pay& b) { bool e = true; PAY_FIELDS(PAY_EQ1) return e; }
static Pay   anypay() { Pay p = Pay(); PAY_FIELDS(PAY_ANY1) return p; }
#endif

// the round under evaluation is over (the next one opens, or enter/exit/reenter begin, or the call returns)
static void finalize_round() {
  if (cur_open) {
    if (cur_transition && !cur_canc) {
      VA(cur_entry_seen, 305);                                  // both guards were consulted before it counts
      acc_valid = true; acc_dest = cur_dest; acc_org = cur_org; surv_mask |= 1u << cur_dest;
#if PAYLOAD
      acc_haspay = cur_haspay; acc_pay = cur_pay;
#endif
    }
    cur_open = false;
  }
}

static void note_request(int origin, int dest) { led_valid = true; led_fresh = true; led_dest = dest; led_org = origin;
  led_round = (call_kind == CALL_PROCESS || call_kind == CALL_ACTIVATE) ? rounds : -1; led_maybe = false;
#if PAYLOAD
  led_haspay = false;
#endif
}

// ---- what every control flavour must show (C06), and the quiescent-point part of C01
template <typename TControl>
static void view(TControl& c, int I, bool quiescent) {
  VA(c.stateId() == (I < 0 ? INV : I), 600);
#if CONTEXT == 1
  VA(static_cast<const void*>(&c.context()) == g_ctx(), 601);
#elif CONTEXT == 2
  VA(static_cast<const void*>(&c.context()) == g_ctx() && &c.context() == ctx_addr, 601);
#elif CONTEXT == 3
  VA(static_cast<const void*>(c.context()) == g_ctx() && c.context() == ctx_addr, 601);
#endif
  if (led_fresh) { VA(c.request().destination == led_dest && c.request().origin == led_org, 602); }
  if (!led_valid) VA(!c.request(), 603);
  if (PSEL(6)) { int j = nondet_below(NSTATES); VA(c.isActive(j) == g_is(j), 604); }
  if (quiescent) {
    VA(g_active() == (mon_active < 0 ? INV : mon_active), 101);
    for (int j = 0; j < NSTATES; ++j) VA(g_is(j) == (j == mon_active), 102);
  }
}

// ---- actions a callback may take with a FullControl (any mix, chosen afresh at every invocation)
template <typename TControl>
static void act(TControl& c, int I) {
  unsigned char k = nondet_u8();
#if PINGPONG
  k = 1;
#endif
  int before = g_active();
  if ((k & 3) == 1) { int d = nondet_below(NSTATES); c.changeTo(d); note_request(I < 0 ? INV : I, d);
    VA(c.request().destination == d && c.request().origin == (I < 0 ? INV : I), 607); }
#if PAYLOAD
  else if ((k & 3) == 2) { int d = nondet_below(NSTATES); Pay p = anypay();
    if ((k & 8) && c.request() && c.request().payload()) { p = *c.request().payload(); c.changeWith(d, *c.request().payload()); }   // re-targeting the waiting request and keeping its payload: the argument aliases the request itself
    else c.changeWith(d, p);
    note_request(I < 0 ? INV : I, d); led_haspay = true; led_pay = p;
    VA(c.request().destination == d && c.request().origin == (I < 0 ? INV : I), 607);
    VA(c.request().payload() && payeq(*c.request().payload(), p), 706); }
#endif
#ifdef FFSM2_ENABLE_PLANS
  else if ((k & 3) == 3) { int id = nondet_below(NSTATES); if (k & 4) c.succeed(id); else c.fail(id); }   // reporting task results
#endif
  VA(g_active() == before, 201);     // a request never changes the active state when made
}

template <typename TGuard>
static void guard_act(TGuard& c, int I) {
  unsigned char k = nondet_u8();
#if PINGPONG
  k = 0;
#endif
  if (k & 1) { if (k & 2) act(c, I); c.cancelPendingTransition(); cur_canc = true; if (!(k & 2) && (k & 4)) act(c, I); }
  else act(c, I);
}

static void lifecycle_common() {
  finalize_round();
  led_fresh = false;     // a request still unconsumed here was either dropped as redundant or is left over (limit)
  VA(!inside_guard, 310);                                  // guard evaluation never runs enter/exit/reenter
  VA(call_kind != CALL_QUERY && call_kind != CALL_NONE, 103);
  if (call_kind == CALL_PROCESS && ph_kind) VA(ph == 6, 503);   // all phase callbacks came first
}

// ---- phase automaton (C05): root, state, root, state, state, root
static void phase(int idx, bool is_root, int I) {
  VA(call_kind == CALL_PROCESS || call_kind == CALL_QUERY, 500);
  if (!is_root) VA(I == call_before, 501);                 // only the state active at the start of the call
  if (!HEAD && idx < 6) { /* without a root head the root slots are skipped */
    if (ph == 0 && idx == 1) ph = 1; if (ph == 2 && idx == 3) ph = 3; }
  VA(ph == idx, 502);
  ph = idx + 1;
  if (!HEAD) { if (ph == 2) ph = 3; if (ph == 5) ph = 6; }
  VA(n_enter + n_exit + n_reenter == 0 && rounds == 0, 505);   // before any guard/exit/enter of this call
}

// what a guard must see: the pending transition of its round and the transition accepted so far
template <typename TGuard>
static void guard_view(TGuard& c) {
  if (cur_transition) {
#if PAYLOAD
    { const Pay* p = c.pendingTransition().payload(); VA((p != 0) == cur_haspay, 702); if (p && cur_haspay) VA(payeq(*p, cur_pay), 702); }
#endif
    VA(c.pendingTransition().destination == cur_dest && c.pendingTransition().origin == cur_org, 605);
  }
  if (!acc_valid) VA(!c.currentTransition(), 606);
  else VA(c.currentTransition().destination == acc_dest && c.currentTransition().origin == acc_org, 606);
}

// a guard round opens: the pending transition must be the latest request (C02), which is thereby consumed
template <typename TGuard>
static void open_round(TGuard& c) {
  finalize_round();
  rounds++; cur_open = true; cur_transition = true; cur_canc = false; cur_entry_seen = false; cur_exit_canc = false; cur_root_canc = false;
  cur_dest = c.pendingTransition().destination; cur_org = c.pendingTransition().origin;
#if PAYLOAD
  { const Pay* p = c.pendingTransition().payload(); cur_haspay = p != 0; if (p) cur_pay = *p; }
#endif
  VA(led_valid, 210);                                      // a round is only ever opened for a request
  if (led_valid) {
    VA(cur_dest == led_dest, 211);                         // the later request replaced earlier ones
    VA(cur_org == led_org, 608);                           // ... and carries its requester as origin
    VA(cur_dest == led_dest && cur_org == led_org, 1120); // (C11: the transition under evaluation is the request as it was made)
#if PAYLOAD
    VA(cur_haspay == led_haspay, 705);
    if (cur_haspay && led_haspay) VA(payeq(cur_pay, led_pay), 701);
    VA(cur_haspay == led_haspay && (!cur_haspay || payeq(cur_pay, led_pay)), 1121);
#endif
  }
  led_valid = false; led_fresh = false;
  VA(cur_dest < NSTATES, 104);
  vassume(cur_dest < NSTATES);
}

// activation: the first evaluation is that of the initial state itself and carries no transition
template <typename TGuard>
static void open_activation_round(TGuard& c) {
  if (rounds == 0) { rounds = 1; cur_open = true; cur_transition = false; cur_canc = false; cur_entry_seen = false; cur_exit_canc = false; cur_root_canc = false; cur_dest = 0; cur_org = INV;
    VA(!c.pendingTransition(), 330);
#if PAYLOAD
    cur_haspay = false;
#endif
  } else open_round(c);
}

#if INJECT
// injected base: its guards run before the state's own ones and open the round
struct Inj : FSM::State {
  void entryGuard(GuardControl& c) {
    vrec(13, c.stateId());
    VA(guards_allowed, 320);
    inside_guard = true;
    if (call_kind == CALL_ACTIVATE && !HEAD) open_activation_round(c);
    guard_act(c, c.stateId());
    inside_guard = false;
  }
  void exitGuard(GuardControl& c) {
    vrec(14, c.stateId());
    VA(guards_allowed, 320);
    VA(call_kind == CALL_PROCESS, 321);
    inside_guard = true;
    open_round(c);
    guard_act(c, c.stateId());
    inside_guard = false;
  }
};
typedef FSM::StateT<Inj> StBase;
#else
typedef FSM::State StBase;
#endif
template <int I> struct St : StBase {
  typedef typename StBase::GuardControl GuardControl; typedef typename StBase::PlanControl PlanControl;
  typedef typename StBase::FullControl FullControl; typedef typename StBase::ConstControl ConstControl;
  void entryGuard(GuardControl& c) {
    vrec(1, I);
    VA(guards_allowed, 320);
    VA(n_enter + n_exit + n_reenter == 0, 311);
    inside_guard = true;
    if (call_kind == CALL_ACTIVATE) {
      if (!HEAD && !INJECT) open_activation_round(c);
      if (HEAD) VA(cur_open && !cur_root_canc, 302);       // the root's veto ends the round
      VA(cur_open && cur_dest == I, 303);
      VA(!cur_entry_seen, 304); cur_entry_seen = true;
      VA(mon_active == -1, 105);
      view(c, I, false);
      guard_view(c);
      guard_act(c, I);
    } else {
      VA(call_kind == CALL_PROCESS, 321);
      VA(cur_open && !cur_exit_canc, 302);                 // not consulted once the exit guard has cancelled
      VA(cur_open && cur_dest == I, 303);                  // the entry guard of the pending destination
      VA(!cur_entry_seen, 304); cur_entry_seen = true;
      view(c, I, true);
      guard_view(c);
      guard_act(c, I);
    }
    inside_guard = false;
  }
  void exitGuard(GuardControl& c) {
    vrec(2, I);
    VA(guards_allowed, 320);
    VA(call_kind == CALL_PROCESS, 321);
    VA(mon_active == I, 301);                              // exit guard of the active state
    VA(n_enter + n_exit + n_reenter == 0, 311);
    if (ph_kind) VA(ph == 6, 503);
    inside_guard = true;
    if (!INJECT) open_round(c);
    view(c, I, true);
    guard_view(c);
    guard_act(c, I);
    cur_exit_canc = cur_canc;
    inside_guard = false;
  }
  void enter(PlanControl& c) {
    vrec(3, I); lifecycle_common();
    VA(mon_active == -1, 110);                             // previous state's exit() came first
    if (HEAD) VA(root_in, 111);
    mon_active = I; n_enter++; n_ent[I]++;
    VA(g_active() == I, 112);
    view(c, I, false);
    if ((call_kind == CALL_PROCESS || call_kind == CALL_ACTIVATE) && acc_valid) {
      VA(c.currentTransition().destination == I, 610);
      VA(c.currentTransition().origin == acc_org, 611);
#if PAYLOAD
      { const Pay* p = c.currentTransition().payload(); VA((p != 0) == acc_haspay, 703); if (p && acc_haspay) VA(payeq(*p, acc_pay), 703); }
#endif
    }
  }
  void reenter(PlanControl& c) {
    vrec(4, I); lifecycle_common();
    VA(mon_active == I, 113);                              // reenter only for the currently active state
    n_reenter++;
    VA(g_active() == I, 112);
    view(c, I, false);
    if (call_kind == CALL_PROCESS && acc_valid) {
      VA(c.currentTransition().destination == I, 610);
#if PAYLOAD
      { const Pay* p = c.currentTransition().payload(); VA((p != 0) == acc_haspay, 703); if (p && acc_haspay) VA(payeq(*p, acc_pay), 703); }
#endif
    }
  }
  void exit(PlanControl& c) {
    vrec(5, I); lifecycle_common();
    VA(mon_active == I, 114);                              // exit() of the state that is active
    VA(g_active() == I, 112);
    view(c, I, false);
    mon_active = -1; n_exit++; n_ex[I]++;
  }
  void preUpdate (FullControl& c) { vrec(6, I); phase(1, false, I); view(c, I, true); act(c, I); }
  void update    (FullControl& c) { vrec(7, I); phase(3, false, I); view(c, I, true); act(c, I); }
  void postUpdate(FullControl& c) { vrec(8, I); phase(4, false, I); view(c, I, true); act(c, I); }
  void preReact (const Event& e, FullControl& c) { vrec(9, I);  VA(&e == ev_ptr, 510); phase(1, false, I); view(c, I, true); act(c, I); }
  void react    (const Event& e, FullControl& c) { vrec(10, I); VA(&e == ev_ptr, 510); phase(3, false, I); view(c, I, true); act(c, I); }
  void postReact(const Event& e, FullControl& c) { vrec(11, I); VA(&e == ev_ptr, 510); phase(4, false, I); view(c, I, true); act(c, I); }
  void query(Event& e, ConstControl& c) const { vrec(12, I); VA(&e == ev_ptr, 510); VA(ph_kind == 3, 511);
    VA(I == call_before, 501); VA(ph == (HEAD ? 1 : 0), 512); ph = 2; view(c, I, true); }
};

struct Rt : FSM::State {
  void entryGuard(GuardControl& c) {
    vrec(21, 0);
    VA(guards_allowed, 320);
    VA(call_kind == CALL_ACTIVATE, 322);                   // the root's entry guard belongs to activation only
    VA(n_enter + n_exit + n_reenter == 0, 311);
    inside_guard = true;
    open_activation_round(c);
    view(c, -1, false);
    guard_view(c);
    guard_act(c, -1);
    cur_root_canc = cur_canc;
    inside_guard = false;
  }
  void exitGuard(GuardControl&) { vrec(22, 0); VA(0, 323); }  // never consulted in a flat machine
  void enter(PlanControl& c) { vrec(23, 0); lifecycle_common(); VA(!root_in && mon_active == -1, 115); root_in = true; view(c, -1, false); }
  void reenter(PlanControl&) { vrec(24, 0); VA(0, 116); }
  void exit(PlanControl& c) { vrec(25, 0); lifecycle_common(); VA(root_in && mon_active == -1, 117); view(c, -1, false); root_in = false; }
  void preUpdate (FullControl& c) { vrec(26, 0); phase(0, true, -1); view(c, -1, true); act(c, -1); }
  void update    (FullControl& c) { vrec(27, 0); phase(2, true, -1); view(c, -1, true); act(c, -1); }
  void postUpdate(FullControl& c) { vrec(28, 0); phase(5, true, -1); view(c, -1, true); act(c, -1); }
  void preReact (const Event& e, FullControl& c) { vrec(29, 0); VA(&e == ev_ptr, 510); phase(0, true, -1); view(c, -1, true); act(c, -1); }
  void react    (const Event& e, FullControl& c) { vrec(30, 0); VA(&e == ev_ptr, 510); phase(2, true, -1); view(c, -1, true); act(c, -1); }
  void postReact(const Event& e, FullControl& c) { vrec(31, 0); VA(&e == ev_ptr, 510); phase(5, true, -1); view(c, -1, true); act(c, -1); }
  void query(Event& e, ConstControl& c) const { vrec(32, 0); VA(&e == ev_ptr, 510); VA(ph_kind == 3, 511); VA(ph == 0, 512); ph = 1; view(c, -1, true); }
};

static int  g_active() { return g->activeStateId(); }
static bool g_is(int j) { return g->isActive(static_cast<ffsm2::StateID>(j)); }
#if CONTEXT == 3
static const void* g_ctx() { return g->context(); }
#elif CONTEXT == 0
static const void* g_ctx() { return 0; }
#else
static const void* g_ctx() { return &g->context(); }
#endif

// ------------------------------------------------------------------------------------------ per-call checks
static void begin_call(int kind) {
  call_kind = kind; call_before = mon_active; rounds = 0; n_enter = n_exit = n_reenter = 0; ph = 0; ph_kind = 0;
  cur_open = false; acc_valid = false; surv_mask = 0;
}

static void check_quiescent() {
  VA(g->activeStateId() == (mon_active < 0 ? INV : mon_active), 120);
  for (int j = 0; j < NSTATES; ++j) VA(g->isActive(j) == (j == mon_active), 121);
#if MANUAL
  VA(g->isActive() == (mon_active >= 0), 122);
#endif
  if (HEAD) VA(root_in == (mon_active >= 0), 123);
}

// end of update()/react()/immediateChange*(): last surviving request wins (C02/C03), bounded rounds (C04), history (C11)
static void end_process() {
  finalize_round();
  int now = g->activeStateId();
  check_quiescent();
  VA(rounds <= LIMIT, 401);
  if (!acc_valid) { VA(now == call_before, 221); VA(n_enter + n_exit + n_reenter == 0, 222);
                    VA(now == call_before && n_enter + n_exit + n_reenter == 0, 331); }                 // every round vetoed: stay put
  else {
    VA(now == acc_dest, 223); VA(now == acc_dest, 332);                                                 // falls back to the last survivor
    if (acc_dest == call_before) VA(n_reenter == 1 && n_enter == 0 && n_exit == 0, 224);
    else VA(n_enter == 1 && n_exit == 1 && n_reenter == 0, 225);
  }
  // a destination none of whose rounds survived is not entered on account of those requests
  if (now != call_before && now < NSTATES) VA((surv_mask >> now) & 1u, 333);
  // C04: however the rounds went (limit reached or not) the call ends with exactly one active state, chosen among the
  // requests that passed their guards (or the previous state)
  VA(now < NSTATES && now == mon_active, 404);
  if (now != call_before && now < NSTATES) VA((surv_mask >> now) & 1u, 405);
  VA(now == (acc_valid ? acc_dest : call_before), 406);
  // a request still unconsumed when processing ends
  if (led_valid) {
    if (led_round >= 1) {            // made inside a guard of this call
      bool same = acc_valid && led_dest == acc_dest;           // asks for what already won: may be dropped as redundant
      bool limit = rounds == LIMIT;                             // substitution limit reached: left over for the next processing point
      VA(same || limit, 240);
      // a request may only be dropped as redundant if it is redundant in origin and payload too (else the history would
      // report the origin / payload of a superseded request): the accepted one is an external, payload-free request
      if (same && !limit) { VA(acc_org == INV, 1109);
#if PAYLOAD
        VA(!acc_haspay, 1109);
#endif
      }
      if (same && !limit) led_valid = false; else led_maybe = true;    // at the limit it is left over or dropped: both in order
    } else {                         // was waiting before the first round of this call: a round must have picked it up
      VA(led_maybe, 242);
      led_valid = false;
    }
    led_fresh = false; led_round = -1;
  }
#if HISTORY
  if (!acc_valid) VA(!g->previousTransition(), 1101);
  else { VA(g->previousTransition().destination == now, 1102);
         VA(g->previousTransition().origin == acc_org, 1103);
#if PAYLOAD
         { const Pay* p = g->previousTransition().payload(); VA((p != 0) == acc_haspay, 704); VA((p != 0) == acc_haspay, 1104);
           if (p && acc_haspay) { VA(payeq(*p, acc_pay), 704); VA(payeq(*p, acc_pay), 1104); } }
#endif
  }
#endif
#if PINGPONG
  if (rounds == LIMIT) vwitness(9002);                         // the limit is really reached when every guard redirects
#endif
  call_kind = CALL_NONE;
}

static void end_activate() {
  finalize_round();
  int e = acc_valid ? acc_dest : 0;   // the initial state's own guard cannot veto: something must be entered
  check_quiescent();
  VA(mon_active == e, 226); VA(mon_active == e, 334);
  VA(n_enter == 1 && n_exit == 0 && n_reenter == 0, 227);
  VA(rounds <= 1 + LIMIT, 403);
  VA(mon_active == e && g->activeStateId() == e, 407);
  if (led_valid) {
    bool same = acc_valid && led_dest == acc_dest; bool limit = rounds == 1 + LIMIT;
    VA(led_round >= 1, 243); VA(same || limit, 241);   // (a redirect requested by the root head has no origin and can make a later one redundant)
    if (same && !limit) led_valid = false; else led_maybe = true;
    led_fresh = false; led_round = -1; }
#if HISTORY
  if (!acc_valid) VA(!g->previousTransition(), 1105);
  else { VA(g->previousTransition().destination == mon_active, 1106); VA(g->previousTransition().origin == acc_org, 1107); }
#endif
  call_kind = CALL_NONE;
}

static void end_deactivate(bool alive) {
  VA(mon_active == -1 && !root_in, 130);
  VA(n_exit == 1 && n_enter == 0 && n_reenter == 0, 131);
  if (alive) {   // after exit() the object lives on and reports no active state; after the destructor it is gone
    VA(g->activeStateId() == INV, 132);
    for (int j = 0; j < NSTATES; ++j) VA(!g->isActive(j), 133); }
  for (int j = 0; j < NSTATES; ++j) VA(n_ent[j] == n_ex[j], 134);
  led_valid = false; led_fresh = false;
  call_kind = CALL_NONE;
}

static void end_noguard(int expect) {        // replayTransition / replayEnter / load: applied without guards
  check_quiescent();
  VA(rounds == 0, 324);
  VA(mon_active == expect, 1110);
  if (call_before < 0) VA(n_enter == 1 && n_exit == 0 && n_reenter == 0, 1111);
  else if (expect == call_before) VA(n_reenter == 1 && n_enter == 0 && n_exit == 0, 1111);
  else VA(n_enter == 1 && n_exit == 1 && n_reenter == 0, 1111);
  call_kind = CALL_NONE;
}

// ------------------------------------------------------------------------------------------ driver
#if CONTEXT == 1
#define CONSTRUCT(buf) new (&slot.obj) Inst(Ctx{7u, 0u})
#elif CONTEXT == 2
#define CONSTRUCT(buf) new (&slot.obj) Inst(the_ctx)
#elif CONTEXT == 3
#define CONSTRUCT(buf) new (&slot.obj) Inst(&the_ctx)
#else
#define CONSTRUCT(buf) new (&slot.obj) Inst
#endif
static Ctx the_ctx = {7u, 0u};

#if MANUAL
static void do_activate(Inst* m) { begin_call(CALL_ACTIVATE); m->enter(); end_activate(); }
#endif

extern "C" int harness(void) {
  // storage: a union keeps the object typed for the solver while its bytes can be pre-filled arbitrarily
  union Slot { Inst obj; unsigned char bytes[sizeof(Inst)]; Slot() {} ~Slot() {} };
  Slot slot, slot2;
  unsigned char* buf = slot.bytes;
  nondet_fill(buf, sizeof(Inst));                                // every byte pattern pre-filling the storage
  if (OPS & OP_RELOCATE) nondet_fill(slot2.bytes, sizeof(Inst));
  bool relocated = false;
  g = &slot.obj;
  ctx_addr = &the_ctx;
#if MANUAL
  Inst* m = CONSTRUCT(buf);
  check_quiescent();
  VA(!m->isActive(), 135);
  do_activate(m);
#else
  begin_call(CALL_ACTIVATE);
  Inst* m = CONSTRUCT(buf);
  end_activate();
#endif
#if CONTEXT == 2
  VA(&m->context() == ctx_addr, 620);
#elif CONTEXT == 3
  VA(m->context() == ctx_addr, 620);
#elif CONTEXT == 1
  VA(m->context().tag == 7u, 620);
#endif
#if INDUCTIVE
  // one-step-from-any-state, variant (b): arbitrary state satisfying the representation invariant
  { int a = nondet_below(NSTATES); unsigned char hasreq = nondet_u8() & 1;
    m->_core.registry.active = a; m->_core.registry.requested = 255; mon_active = a;
    for (int j = 0; j < NSTATES; ++j) { n_ent[j] = (j == a) ? 1 : 0; n_ex[j] = 0; }
    if (hasreq) { int d = nondet_below(NSTATES); unsigned char o = nondet_u8(); vassume(o < NSTATES || o == 255);
      m->_core.request = FSM::Instance::Transition{static_cast<ffsm2::StateID>(o), static_cast<ffsm2::StateID>(d)}; note_request(o, d); led_fresh = false; }
    else { m->_core.request.clear(); led_valid = false; }
#if HISTORY
    nondet_fill(&m->_core.previousTransition, sizeof m->_core.previousTransition);
#endif
  }
#endif
#if SERIAL
  Inst::SerialBuffer saved; bool have_saved = false; int saved_active = -2;
#endif
  for (int s = 0; s < KSTEPS; ++s) {
    unsigned char op = nondet_u8();
    if (mon_active < 0) {
#if MANUAL
      // inactive machine: only (re)activation is in contract
#if HISTORY
      if ((op & 1) && (OPS & OP_REPLAY)) { int d = nondet_below(NSTATES); begin_call(CALL_NOGUARD); guards_allowed = false; m->replayEnter(d); guards_allowed = true; end_noguard(d);
        VA(m->previousTransition().destination == d, 1112); }
      else
#endif
#if SERIAL
      if ((op & 2) && (OPS & OP_SAVELOAD) && have_saved) {
        begin_call(CALL_NOGUARD); guards_allowed = false; m->load(saved); guards_allowed = true;
        if (saved_active < 0) { VA(mon_active == -1, 1202); VA(n_enter + n_exit + n_reenter == 0, 1203); check_quiescent(); call_kind = CALL_NONE; }
        else end_noguard(saved_active); }
      else
#endif
      do_activate(m);
#endif
      continue;
    }
    if (op == 0 && (OPS & OP_UPDATE)) { begin_call(CALL_PROCESS); ph_kind = 1; m->update(); VA(ph == 6, 504); end_process(); }
    else if (op == 1 && (OPS & OP_REACT)) { Event ev; nondet_fill(&ev, sizeof ev); ev_ptr = &ev; begin_call(CALL_PROCESS); ph_kind = 2; m->react(ev); VA(ph == 6, 504); end_process(); ev_ptr = 0; }
    else if (op == 2 && (OPS & OP_QUERY)) { Event ev; nondet_fill(&ev, sizeof ev); ev_ptr = &ev;
      unsigned char before[sizeof(Inst)]; vmem_copy(before, buf, sizeof(Inst));
      begin_call(CALL_QUERY); ph_kind = 3; const Inst* cm = m; cm->query(ev);
      VA(ph == 2, 513);
      bool same = vmem_equal(before, buf, sizeof(Inst)) != 0;
      VA(same, 514);                                        // query leaves the machine unchanged
      VA(rounds == 0 && n_enter + n_exit + n_reenter == 0, 515);
      check_quiescent(); call_kind = CALL_NONE; ev_ptr = 0; }
    else if (op == 3 && (OPS & OP_CHANGE)) { int d = nondet_below(NSTATES); int before = m->activeStateId();
#if PAYLOAD
      if (nondet_u8() & 1) { Pay p = anypay(); m->changeWith(d, p); note_request(INV, d); led_haspay = true; led_pay = p; } else
#endif
      { m->changeTo(d); note_request(INV, d); }
      VA(m->activeStateId() == before, 202); check_quiescent(); }
    else if (op == 4 && (OPS & OP_IMMEDIATE)) { int d = nondet_below(NSTATES); begin_call(CALL_PROCESS);
#if PAYLOAD
      if (nondet_u8() & 1) { Pay p = anypay(); note_request(INV, d); led_haspay = true; led_pay = p; m->immediateChangeWith(d, p); } else
#endif
      { note_request(INV, d); m->immediateChangeTo(d); }
      end_process(); }
#if HISTORY
    else if (op == 5 && (OPS & OP_REPLAY)) { unsigned char d = nondet_u8(); vassume(d < NSTATES || d == 255);
      if (d == 255) {
        unsigned char before[sizeof(Inst)]; vmem_copy(before, buf, sizeof(Inst));
        begin_call(CALL_NOGUARD); guards_allowed = false; bool ok = m->replayTransition(d); guards_allowed = true;
        VA(!ok, 1113); VA(rounds == 0 && n_enter + n_exit + n_reenter == 0, 1114); check_quiescent(); call_kind = CALL_NONE;
        m->_core.previousTransition = reinterpret_cast<Inst*>(before)->_core.previousTransition;   // the documented clearing of previousTransition aside ...
        bool same = vmem_equal(before, buf, sizeof(Inst)) != 0;
        VA(same, 1115);                                     // ... nothing changed
        m->_core.previousTransition.clear();
      } else {
        begin_call(CALL_NOGUARD); guards_allowed = false; bool ok = m->replayTransition(d); guards_allowed = true; end_noguard(d);
        VA(ok, 1116); VA(m->previousTransition().destination == d, 1112);
        }
    }
#endif
#if SERIAL
    else if (op == 6 && (OPS & OP_SAVELOAD)) {
      unsigned char before[sizeof(Inst)]; vmem_copy(before, buf, sizeof(Inst));
      m->save(saved); have_saved = true; saved_active = mon_active;
      bool same = vmem_equal(before, buf, sizeof(Inst)) != 0;
      VA(same, 1201); check_quiescent(); }
    else if (op == 7 && (OPS & OP_SAVELOAD) && have_saved) {
      begin_call(CALL_NOGUARD); guards_allowed = false; m->load(saved); guards_allowed = true;
      if (saved_active < 0) { VA(mon_active == -1, 1202); check_quiescent(); call_kind = CALL_NONE; led_valid = led_fresh = false; }
      else { end_noguard(saved_active); led_valid = led_fresh = false; } }
#endif
#if MANUAL
    else if (op == 8 && (OPS & OP_EXIT)) {
      begin_call(CALL_DEACTIVATE); m->exit(); end_deactivate(true); }
#endif
    else if ((op == 9 || op == 10) && (OPS & OP_RELOCATE) && !relocated) {
      // the machine is copy- (9) or move-constructed (10) into other storage and the program carries on with the new
      // object (factory return, container growth); no callback runs, and every monitor simply continues
      relocated = true; guards_allowed = false; const int ne = n_enter + n_exit + n_reenter;
#if CONTEXT == 2
      Inst* m2 = new (&slot2.obj) Inst(*m);      // (a machine over a reference context is copyable but its move constructor does not compile: `context{move(other.context)}`)
#else
      Inst* m2 = (op == 9) ? new (&slot2.obj) Inst(*m) : new (&slot2.obj) Inst(static_cast<Inst&&>(*m));
#endif
      guards_allowed = true; m = m2; g = m2; buf = slot2.bytes;
      VA(n_enter + n_exit + n_reenter == ne, 136);
      check_quiescent(); }
  }
  vwitness(9001);
#if MANUAL
  if (mon_active >= 0) { begin_call(CALL_DEACTIVATE); m->exit(); end_deactivate(true); }
  m->~Inst();
#else
  begin_call(CALL_DEACTIVATE); m->~Inst(); end_deactivate(false);
#endif
  VA(mon_active == -1 && !root_in, 140);
  for (int j = 0; j < NSTATES; ++j) VA(n_ent[j] == n_ex[j], 141);
  return 0;
}

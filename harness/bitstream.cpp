// C13 kernel harness: BitWriteStreamT / BitReadStreamT / StreamBufferT / bitWidth (DESIGN.md 5, C13).
// One build per field width W (a symbolic width in one query did not finish).  Inductive step:
// arbitrary cursor, arbitrary prior buffer satisfying the stream invariant "no bit at or past the cursor is
// set", one write<W>() of an arbitrary value that fits W bits; post-condition re-establishes the invariant,
// so sequences of any length and any widths follow by induction.
#define FFSM2_DISABLE_TYPEINDEX
#define FFSM2_ENABLE_SERIALIZATION
#include "vrt.h"
#include <ffsm2/machine.hpp>
#ifndef CAP
#define CAP 255
#endif
#ifndef W
#define W 13
#endif
#ifndef W2
#define W2 0
#endif
#ifndef MODE
#define MODE 0     // 0: inductive step for width W; 1: bitWidth(); 2: two-field sequence W then W2 from an empty stream
#endif
using Buf = ffsm2::detail::StreamBufferT<CAP>;
using WS = ffsm2::detail::BitWriteStreamT<CAP>;
using RS = ffsm2::detail::BitReadStreamT<CAP>;
static unsigned bit(const Buf& b, unsigned i) { return (b.data()[i >> 3] >> (i & 7)) & 1u; }
static const bool bytes_ok = Buf::BYTE_COUNT * 8 >= CAP;      // the buffer holds its declared bit capacity

extern "C" int harness(void) {
  vassert(bytes_ok, 1300);
#if MODE == 0
  using Item = ffsm2::UBitWidth<W>;
  Buf b;
  unsigned char c = nondet_u8(); unsigned v = nondet_u32();
  vassume(c + W <= CAP);                                   // documented precondition: the field fits the capacity
  vassume(W == 32 || v < (1u << (W & 31)));                // ... and the value fits its width
  WS ws{b, c};                                             // (the constructor clears the buffer; prior contents follow)
  nondet_fill(&b, sizeof b);
  unsigned cb = c >> 3;
  for (unsigned i = 0; i < Buf::BYTE_COUNT; i++) { if (i > cb) vassume(b.data()[i] == 0); }
  vassume((b.data()[cb] >> (c & 7)) == 0);                 // invariant: nothing at or past the cursor
  Buf before = b;
  ws.write<W>(static_cast<Item>(v));
  vassert(ws.cursor() == c + W, 1301);                     // the cursor advances by exactly the field width
  unsigned last = (c + W - 1) >> 3;
  for (unsigned i = 0; i < Buf::BYTE_COUNT; i++) {
    if (i < cb) vassert(b.data()[i] == before.data()[i], 1302);    // bytes below the field untouched
    if (i > last) vassert(b.data()[i] == 0, 1303); }               // bits past the cursor stay zero
  for (unsigned k = 0; k < W + 14; k++) { unsigned i = (cb << 3) + k;
    if (i < Buf::BYTE_COUNT * 8u && (i >> 3) <= last) {
      unsigned exp = i < c ? bit(before, i) : i < (unsigned)c + W ? ((v >> (i - c)) & 1u) : 0u;
      vassert(bit(b, i) == exp, 1304); } }                        // LSB first, contiguous, only its own bits
  RS rs{b, c};
  unsigned got = rs.read<W>();
  vassert(got == v, 1305); vassert(rs.cursor() == c + W, 1306);   // reads return exactly what was written
  vwitness(9001);
#elif MODE == 1
  unsigned v = nondet_u32();
  unsigned w = ffsm2::bitWidth(v);
  vassert(w <= 32, 1310);
  vassert(((unsigned long long)v >> w) == 0, 1311);               // v fits w bits
  vassert(w == 0 || ((unsigned long long)v >> (w - 1)) == 1, 1312); // and w is the least such width
  unsigned char n = nondet_u8(), i = nondet_u8();
  vassume(n >= 1 && i < n);
  vassert((i >> ffsm2::bitWidth(n)) == 0, 1313);                  // every index of a count fits the width derived for that count
  vwitness(9001);
#else
  using Item1 = ffsm2::UBitWidth<W>; using Item2 = ffsm2::UBitWidth<W2>;
  Buf b; nondet_fill(&b, sizeof b);
  unsigned v1 = nondet_u32(), v2 = nondet_u32();
  vassume(W == 32 || v1 < (1u << (W & 31))); vassume(W2 == 32 || v2 < (1u << (W2 & 31)));
  WS ws{b};
  ws.write<W>(static_cast<Item1>(v1)); ws.write<W2>(static_cast<Item2>(v2));
  vassert(ws.cursor() == W + W2, 1320);
  RS rs{b};
  unsigned g1 = rs.read<W>(); unsigned g2 = rs.read<W2>();
  vassert(g1 == v1 && g2 == v2, 1321); vassert(rs.cursor() == W + W2, 1322);
  { const unsigned end = W + W2;                                   // nothing past the cursor
    for (unsigned i = 0; i < Buf::BYTE_COUNT; i++) { if (i > (end >> 3)) vassert(b.data()[i] == 0, 1323); }
    if ((end >> 3) < Buf::BYTE_COUNT) vassert((b.data()[end >> 3] >> (end & 7)) == 0, 1323); }
  vwitness(9001);
#endif
  return 0;
}

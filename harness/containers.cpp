// C20 kernel harness: BitArrayT, StaticArrayT, DynamicArrayT against their mathematical models.
// Inductive step: arbitrary contents satisfying the representation invariant, ONE operation with symbolic
// arguments, post-condition for a symbolic observed index j (so "never disturbs another index" is inside the
// quantifier) and re-establishment of the invariant; sequences of any length follow by induction.
#define FFSM2_DISABLE_TYPEINDEX
#define FFSM2_ENABLE_PLANS
#include "vrt.h"
#include <ffsm2/machine.hpp>
#ifndef CAP
#define CAP 12
#endif
#ifndef MODE
#define MODE 0      // 0 BitArrayT, 1 StaticArrayT, 2 DynamicArrayT
#endif
#ifndef ETYPE
#define ETYPE 0     // element type: 0 Short (special filler), 1 u32, 2 three-byte struct
#endif
using namespace ffsm2; using namespace ffsm2::detail;
#if ETYPE == 0
typedef Short Elem;
static Elem anyelem() { return nondet_u8(); }
#elif ETYPE == 1
typedef unsigned Elem;
static Elem anyelem() { return nondet_u32(); }
#else
struct Elem { unsigned char a, b, c; bool operator==(const Elem& o) const { return a == o.a && b == o.b && c == o.c; } bool operator!=(const Elem& o) const { return !(*this == o); } };
static Elem anyelem() { Elem e; e.a = nondet_u8(); e.b = nondet_u8(); e.c = nondet_u8(); return e; }
#endif

#if MODE == 0
typedef BitArrayT<CAP> BA;
static const unsigned UNITS = (CAP + 7) / 8;
static bool model_bit(const BA& b, unsigned j) { return (b._storage[j >> 3] >> (j & 7)) & 1u; }
static bool padding_clear(const BA& b) { return (CAP % 8) ? (b._storage[UNITS - 1] >> (CAP % 8)) == 0 : true; }
static bool model_empty(const BA& b) { bool e = true; for (unsigned u = 0; u < UNITS; ++u) { unsigned char v = b._storage[u]; if (u == UNITS - 1 && (CAP % 8)) v &= (unsigned char)((1u << (CAP % 8)) - 1); e = e && (v == 0); } return e; }
#endif

extern "C" int harness(void) {
#if MODE == 0
  vassert(sizeof(BA) == UNITS, 2010);                            // one bit per index, packed (an ordinary assertion: a wrong size must be reported, not fail to compile)
  { BA fresh; vassert(fresh.empty() && padding_clear(fresh) && model_empty(fresh), 2000); }   // base case
  BA b; nondet_fill(&b, sizeof b); vassume(padding_clear(b));
  BA o; nondet_fill(&o, sizeof o); vassume(padding_clear(o));
  unsigned j = nondet_u8(); vassume(j < CAP);
  unsigned i = nondet_u8(); vassume(i < CAP);
  vassert(b.get(j) == model_bit(b, j), 2001);                    // get() reads exactly bit j
  vassert(b.empty() == model_empty(b), 2002);                    // empty() <=> no index below the capacity is set
  const bool before = b.get(j), other = o.get(j);
  unsigned char op = nondet_u8();
  bool expect = before;
  if (op == 0)      { b.set(i);   expect = (j == i) ? true : before; }
  else if (op == 1) { b.clear(i); expect = (j == i) ? false : before; }
  else if (op == 2) { b.set();    expect = true; }
  else if (op == 3) { b.clear();  expect = false; }
  else if (op == 4) { b &= o;     expect = before && other; }
  else              { (void)b.get(i); }
  vassert(b.get(j) == expect, 2003);                             // the set model; other indices undisturbed
  vassert(padding_clear(b), 2004);                               // invariant re-established
  vassert(b.empty() == model_empty(b), 2005);
  if (op == 2) vassert(!b.empty(), 2006);
  if (op == 3) vassert(b.empty(), 2007);
  vwitness(9001);
#elif MODE == 1
  typedef StaticArrayT<Elem, CAP> SA;
  SA a; nondet_fill(&a, sizeof a);
  unsigned j = nondet_u8(); vassume(j < CAP);
  unsigned i = nondet_u8(); vassume(i < CAP);
  vassert(a.count() == CAP, 2010);
  const Elem before = a[j];
  unsigned char op = nondet_u8();
  Elem v = anyelem();
  if (op == 0)      { a[i] = v; vassert(a[j] == ((j == i) ? v : before), 2011); }            // last value stored at i
  else if (op == 1) { a.fill(v); vassert(a[j] == v, 2012); }                                  // fill overwrites every element
  else if (op == 2) { a.clear(); vassert(a[j] == filler<Elem>(), 2013); vassert(a.empty(), 2014); }
  else if (op == 3) { bool all = true; for (unsigned k = 0; k < CAP; ++k) all = all && (a[k] == filler<Elem>()); vassert(a.empty() == all, 2015); }
  else { unsigned n = 0; unsigned k = nondet_u8(); vassume(k < CAP); bool hit = false;
         for (auto it = a.begin(); it != a.end(); ++it) { if (n == k) { vassert(&*it == &a[k], 2016); hit = true; } ++n; }   // index order
         vassert(n == CAP && hit, 2017); }                                                          // each element once
  vwitness(9001);
#else
  typedef DynamicArrayT<Elem, CAP> DA;
  { DA fresh; vassert(fresh.count() == 0 && fresh.empty(), 2020); }
  DA a; nondet_fill(&a, sizeof a); vassume(a._count <= CAP);
  const unsigned cnt = a.count();
  unsigned j = nondet_u8(); vassume(j < CAP);
  Elem before = a._items[j];
  unsigned char op = nondet_u8();
  Elem v = anyelem();
  if (op == 0 && cnt < CAP) { unsigned idx = a.emplace(v); vassert(idx == cnt && a.count() == cnt + 1, 2021);
      vassert(a[cnt] == v, 2022); if (j < cnt) vassert(a[j] == before, 2023); }                  // insertion order and count
  else if (op == 1 && cnt < CAP) { a += v; vassert(a.count() == cnt + 1 && a[cnt] == v, 2024); if (j < cnt) vassert(a[j] == before, 2023); }
  else if (op == 2) { a.clear(); vassert(a.count() == 0 && a.empty(), 2025); }
  else if (op == 3) { vassert(a.empty() == (cnt == 0), 2026); }
  else { unsigned n = 0; unsigned k = nondet_u8(); bool hit = false;
         for (auto it = a.begin(); it != a.end(); ++it) { if (n == k) { vassert(&*it == &a._items[k], 2027); hit = true; } ++n; }
         vassert(n == cnt, 2028); vassert(hit == (k < cnt), 2029); }
  vwitness(9001);
#endif
  return 0;
}

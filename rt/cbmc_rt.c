/* Runtime seen by CBMC: every source of nondeterminism funnels through __draw so that a
 * counterexample trace yields the choice stream in call order (lines "__draw=<v>"). */
#include <stdint.h>
unsigned char nondet_uchar(void);
unsigned nondet_uint(void);
uint8_t nondet_u8(void) { uint8_t __draw = nondet_uchar(); return __draw; }
uint8_t nondet_below(uint8_t n) { uint8_t __draw = nondet_uchar(); __CPROVER_assume(__draw < n); return __draw; }
uint32_t nondet_u32(void) {
  uint32_t r = 0;
  for (int i = 0; i < 4; i++) { uint8_t __draw = nondet_uchar(); r |= ((uint32_t)__draw) << (8 * i); }
  return r;
}
void nondet_fill(uint8_t* p, uint64_t n) { for (uint64_t i = 0; i < n; i++) { uint8_t __draw = nondet_uchar(); p[i] = __draw; } }
void vassert(uint32_t c, uint32_t id) { __CPROVER_assert(c, "vassert:dynamic"); }
void vassume(uint32_t c) { __CPROVER_assume(c); }
#ifdef VERIF_NOWITNESS
void vwitness(uint32_t id) { }
#else
void vwitness(uint32_t id) { __CPROVER_assert(0, "vwitness:dynamic"); }
#endif
void vrec(uint32_t a, uint32_t b) { }

/* byte-wise helpers with their own loop ids (vmem_equal.0 / vmem_copy.0) so that their bound can be set independently */
uint32_t vmem_equal(const uint8_t* a, const uint8_t* b, uint64_t n) { uint32_t e = 1; for (uint64_t i = 0; i < n; i++) e = e & (a[i] == b[i]); return e; }
void vmem_copy(uint8_t* d, const uint8_t* s, uint64_t n) { for (uint64_t i = 0; i < n; i++) d[i] = s[i]; }

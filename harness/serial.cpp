// C12 harness: serialization round-trips the activity state and is canonical (saver x loader product).
// Both instances are driven to ARBITRARY reachable states by a passive prefix through the public API, then
// save() on one and load() into the other; callbacks executed by load() are recorded and must be exactly the
// exit/enter, reenter, final exit or initial enter needed; no guard may run.
#ifndef FFSM2_DISABLE_TYPEINDEX
#define FFSM2_DISABLE_TYPEINDEX
#endif
#define FFSM2_ENABLE_SERIALIZATION
#include "vrt.h"
#include <ffsm2/machine.hpp>
#ifndef NSTATES
#define NSTATES 3
#define STATE_LIST St<0>, St<1>, St<2>
#endif
#ifndef MANUAL
#define MANUAL 0
#endif
#ifndef HEAD
#define HEAD 0
#endif
#ifndef PAYLOAD
#define PAYLOAD 0
#endif
#ifndef FULL
#define FULL 1      // 2: large-N sweep (no byte comparison of the saver); 0: additionally no canonicity pair
#endif
struct Pay { unsigned v; };
namespace cfg {
using C0 = ffsm2::Config;
#if MANUAL
using C1 = C0::ManualActivation;
#else
using C1 = C0;
#endif
#if PAYLOAD
using C2 = C1::PayloadT<Pay>;
#else
using C2 = C1;
#endif
}
using M = ffsm2::MachineT<cfg::C2>;
template <int I> struct St; struct Rt;
#if HEAD
using FSM = M::Root<Rt, STATE_LIST>;
#else
using FSM = M::PeerRoot<STATE_LIST>;
#endif
typedef FSM::Instance Inst;
static const int INV = 255;

// ---- recording of what the instance under observation runs
static bool observing; static bool passive = true;
static int n_guard, n_enter, n_exit, n_reenter, n_root_enter, n_root_exit, last_enter = -1, last_exit = -1, last_reenter = -1;
static int seq_pos, exit_pos, enter_pos;
template <int I> struct St : FSM::State {
  void entryGuard(GuardControl&) { vrec(1, I); if (observing) n_guard++; }
  void exitGuard(GuardControl&) { vrec(2, I); if (observing) n_guard++; }
  void enter(PlanControl&) { vrec(3, I); if (observing) { n_enter++; last_enter = I; enter_pos = ++seq_pos; } }
  void reenter(PlanControl&) { vrec(4, I); if (observing) { n_reenter++; last_reenter = I; } }
  void exit(PlanControl&) { vrec(5, I); if (observing) { n_exit++; last_exit = I; exit_pos = ++seq_pos; } }
};
struct Rt : FSM::State {
  void entryGuard(GuardControl&) { if (observing) n_guard++; }
  void enter(PlanControl&) { if (observing) n_root_enter++; }
  void exit(PlanControl&) { if (observing) n_root_exit++; }
};
typedef Inst::SerialBuffer SBuf;
// the buffer capacity suffices for every state count: one activity bit plus enough bits for every state index
template <unsigned V> struct Bits { enum { value = 1 + Bits<(V >> 1)>::value }; };
template <> struct Bits<0> { enum { value = 0 }; };
static const bool capacity_ok = SBuf::BIT_CAPACITY >= 1 + Bits<NSTATES - 1>::value;      // SERIAL_BITS >= 1 + bits(N-1)
static const bool bytes_ok = SBuf::BYTE_COUNT * 8 >= SBuf::BIT_CAPACITY;                 // BYTE_COUNT * 8 >= SERIAL_BITS

// drive an instance to an arbitrary reachable activity state: returns the active state or -1
static int drive(Inst& m) {
#if MANUAL
  unsigned char act = nondet_u8() & 1;
  if (!act) return -1;
  m.enter();
#endif
  int a = nondet_below(NSTATES);
  m.immediateChangeTo(static_cast<ffsm2::StateID>(a));
  return a;
}
static int activity(const Inst& m) {
#if MANUAL
  if (!m.isActive()) return -1;
#endif
  return m.activeStateId();
}

extern "C" int harness(void) {
  vassert(capacity_ok, 1220); vassert(bytes_ok, 1221);          // the buffer capacity suffices for this state count
  Inst saver, loader;
  const int sa = drive(saver);
  const int la = drive(loader);
  vassert(activity(saver) == sa && activity(loader) == la, 1200);
  struct { unsigned char g1[4]; SBuf b; unsigned char g2[4]; } box;
  nondet_fill(&box, sizeof box);
  const unsigned char c0 = box.g1[3], c1 = box.g2[0];
#if FULL == 1
  unsigned char before[sizeof(Inst)]; vmem_copy(before, &saver, sizeof(Inst));
#endif
  observing = true; n_guard = n_enter = n_exit = n_reenter = 0;
  { const Inst& cs = saver; cs.save(box.b); }
  vassert(n_guard + n_enter + n_exit + n_reenter == 0, 1201);                  // save() runs no callback
#if FULL == 1
  vassert(vmem_equal(before, &saver, sizeof(Inst)), 1202);                                                       // save() does not modify the machine
#endif
  vassert(activity(saver) == sa, 1203);
  vassert(box.g1[3] == c0 && box.g2[0] == c1, 1204);                            // nothing written outside the buffer
  { const unsigned cap = SBuf::BIT_CAPACITY;                                    // nothing beyond the declared bit capacity
    for (unsigned i = 0; i < SBuf::BYTE_COUNT; ++i) if (i > (cap >> 3)) vassert(box.b.data()[i] == 0, 1205);
    if ((cap >> 3) < SBuf::BYTE_COUNT) vassert((box.b.data()[cap >> 3] >> (cap & 7)) == 0, 1205); }
#if FULL
  // canonical form: equal buffers if and only if equal activity
  { SBuf b2; nondet_fill(&b2, sizeof b2); observing = false; { const Inst& cl = loader; cl.save(b2); } observing = true;
    vassert((box.b == b2) == (sa == la), 1206); vassert((box.b != b2) == (sa != la), 1206); }
#endif
  // load into the other instance, whatever its own state
  seq_pos = exit_pos = enter_pos = 0; n_guard = n_enter = n_exit = n_reenter = n_root_enter = n_root_exit = 0; last_enter = last_exit = last_reenter = -1;
  loader.load(box.b);
  vassert(activity(loader) == sa, 1210);                                         // the loader ends with the saver's activity
  vassert(n_guard == 0, 1211);                                                   // consulting no guards
  if (la < 0 && sa < 0) vassert(n_enter + n_exit + n_reenter + n_root_enter + n_root_exit == 0, 1212);
  else if (la < 0) { vassert(n_enter == 1 && last_enter == sa && n_exit == 0 && n_reenter == 0, 1213); if (HEAD) vassert(n_root_enter == 1 && n_root_exit == 0, 1213); }   // initial enter
  else if (sa < 0) { vassert(n_exit == 1 && last_exit == la && n_enter == 0 && n_reenter == 0, 1214); if (HEAD) vassert(n_root_exit == 1 && n_root_enter == 0, 1214); }    // final exit
  else if (sa == la) vassert(n_reenter == 1 && last_reenter == sa && n_enter == 0 && n_exit == 0 && n_root_enter + n_root_exit == 0, 1215);                                 // reenter
  else { vassert(n_exit == 1 && last_exit == la && n_enter == 1 && last_enter == sa && n_reenter == 0 && n_root_enter + n_root_exit == 0, 1216); vassert(exit_pos < enter_pos, 1217); }   // exit then enter
  observing = false;
#if FULL
  // the loaded instance keeps working: a further save reproduces the buffer
  { SBuf b3; nondet_fill(&b3, sizeof b3); const Inst& cl = loader; cl.save(b3); vassert(b3 == box.b, 1218); }
#endif
  vwitness(9001);
#if MANUAL
  if (activity(saver) >= 0) saver.exit();
  if (activity(loader) >= 0) loader.exit();
#endif
  return 0;
}

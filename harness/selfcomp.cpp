// C17 harness (self-composition): behaviour depends only on history; copies are equivalent.
//   ROLE 0  product scenario (rt/product_rt.c runs it twice as A_/B_ on the SAME choice stream): each run constructs
//           the machine over its OWN arbitrary prefill; callback traces and observers must be identical (F6).
//   ROLE 1  copy test (single module): at a symbolic step the original is copy-constructed; observers are compared at
//           that moment (F3); then the original is driven through the remaining steps, then the copy through the same
//           steps with the same choices; traces must match and driving one must leave the other byte-unchanged.
#ifndef FFSM2_DISABLE_TYPEINDEX
#define FFSM2_DISABLE_TYPEINDEX
#endif
#define FFSM2_ENABLE_PLANS
#define FFSM2_ENABLE_TRANSITION_HISTORY
#define FFSM2_ENABLE_SERIALIZATION
#include "vrt.h"
#include <ffsm2/machine.hpp>
#ifndef ROLE
#define ROLE 0
#endif
#ifndef KSTEPS
#define KSTEPS 2
#endif
#ifndef MANUAL
#define MANUAL 0
#endif
#ifndef PAYLOAD
#define PAYLOAD 1
#endif
#ifndef CAP
#define CAP 2
#endif
#define NST 3
#define VCAT2(a, b) a##b
#define VCAT(a, b) VCAT2(a, b)
#ifndef VERIF_PREFIX
#define VERIF_PREFIX
#endif
extern "C" { void pr_step(unsigned s); unsigned char pr_draw(void); unsigned char pr_below(unsigned char n); void pr_rec(unsigned e); unsigned pr_side(void); }
struct Pay { unsigned short v; };
namespace cfg {
using C0 = ffsm2::Config::TaskCapacityN<CAP>::SubstitutionLimitN<2>;
#if MANUAL
using C1 = C0::ManualActivation;
#else
using C1 = C0;
#endif
#if PAYLOAD
using C2 = C1::PayloadT<Pay>;
#else
using C2 = C1;
#endif
}
using M = ffsm2::MachineT<cfg::C2>;
template <int I> struct St; struct Rt;
using FSM = M::Root<Rt, St<0>, St<1>, St<2>>;
typedef FSM::Instance Inst;

#if ROLE == 0
static unsigned char draw() { return pr_draw(); }
static unsigned char below(unsigned char n) { return pr_below(n); }
static void rec(unsigned e) { pr_rec(e); }
#else
#define NCH 12
#define NTR 28
static unsigned char ch[KSTEPS + 2][NCH]; static int ci, step, side;
static unsigned char tr[2][KSTEPS + 2][NTR]; static unsigned char ti[2][KSTEPS + 2];
static unsigned char draw() { vassume(ci < NCH); return ch[step][ci++]; }
static unsigned char below(unsigned char n) { unsigned char v = draw(); return n ? (unsigned char)(v % n) : 0; }
static void rec(unsigned e) { vassume(ti[side][step] < NTR); tr[side][step][ti[side][step]++] = (unsigned char)e; }
#endif

template <typename TC> static void act(TC& c) {
  unsigned char k = draw();
  if ((k & 7) == 1) c.changeTo(below(NST));
#if PAYLOAD
  else if ((k & 7) == 2) { Pay p; p.v = draw(); c.changeWith(below(NST), p); }
#endif
  else if ((k & 7) == 3) c.succeed(below(NST));
  else if ((k & 7) == 4) c.fail(below(NST));
}
template <int I> struct St : FSM::State {
  void entryGuard(GuardControl& c) { rec(0x10 + I); unsigned char k = draw(); if (k & 1) c.cancelPendingTransition(); if (k & 2) c.changeTo(below(NST)); }
  void enter(PlanControl&) { rec(0x20 + I); }
  void reenter(PlanControl&) { rec(0x30 + I); }
  void exit(PlanControl&) { rec(0x40 + I); }
  void update(FullControl& c) { rec(0x50 + I); act(c); }
};
struct Rt : FSM::State {
  void planSucceeded(FullControl&) { rec(0xE0); }
  void planFailed(FullControl&) { rec(0xE1); }
};

// observers after a step: active state, previous transition, plan content, serialized form
static void observe(Inst& m) {
#if MANUAL
  rec(0x80 + (m.isActive() ? 1 : 0));
  if (!m.isActive()) return;
#endif
  rec(0x90 + (m.activeStateId() & 15));
  rec(m.previousTransition().destination); rec(m.previousTransition().origin);
#if PAYLOAD
  rec(m.previousTransition().payload() ? (m.previousTransition().payload()->v & 0xFF) : 0xAA);
#endif
  { int n = 0; auto pl = m.plan(); for (auto it = pl.begin(); it; ++it) { rec(0xC0 + it->origin * 4 + it->destination);
#if PAYLOAD
      rec(it->payload() ? (0x100 + (it->payload()->v & 0x7F)) & 0xFF : 0xAB);
#endif
      if (++n > CAP) break; } rec(0xD0 + n); }
  { Inst::SerialBuffer b; nondet_fill(&b, sizeof b);       // a re-used buffer: whatever it held before is prior memory contents too
    const Inst& cm = m; cm.save(b); rec(b.data()[0]); }
}

static void one_step(Inst& m) {
  unsigned char op = draw() % 7;
#if MANUAL
  if (!m.isActive()) { m.enter(); observe(m); return; }
  if (op == 5) { m.exit(); observe(m); return; }
#endif
  if (op == 0) m.update();
  else if (op == 1) m.changeTo(below(NST));
  else if (op == 2) m.immediateChangeTo(below(NST));
  else if (op == 3) { int o = below(NST), d = below(NST);
#if PAYLOAD
    if (draw() & 1) { Pay p; p.v = draw(); m.plan().changeWith(o, d, p); } else
#endif
    m.plan().change(o, d); }
  else if (op == 4) m.succeed(below(NST));
#if PAYLOAD
  else if (op == 5) { Pay p; p.v = draw(); m.immediateChangeWith(below(NST), p); }
#endif
  else if (op == 6) { int o = below(NST), d = below(NST); m.plan().change(o, d); m.update(); }     // plan a task and run a cycle
  observe(m);
}

#if ROLE == 0
extern "C" void VCAT(VERIF_PREFIX, scenario)(void) {
  union Slot { Inst obj; unsigned char bytes[sizeof(Inst)]; Slot() {} ~Slot() {} };
  Slot slot; nondet_fill(slot.bytes, sizeof(Inst));          // this run's own arbitrary prior memory contents
  Inst* m = new (&slot.obj) Inst;
  observe(*m);
  for (int s = 0; s < KSTEPS; ++s) { pr_step(s + 1); one_step(*m); }
  pr_step(KSTEPS + 1);
  m->~Inst();
}
#else
static bool same_bytes(const Inst& a, const unsigned char* snap) { return vmem_equal(&a, snap, sizeof(Inst)) != 0; }
static void snapshot(const Inst& a, unsigned char* snap) { vmem_copy(snap, &a, sizeof(Inst)); }
extern "C" int harness(void) {
  nondet_fill(ch, sizeof ch);
  const int cp = nondet_below(KSTEPS + 1);                    // the step before which the copy is taken
  union Slot { Inst obj; unsigned char bytes[sizeof(Inst)]; Slot() {} ~Slot() {} };
  Slot so, sc; nondet_fill(so.bytes, sizeof(Inst)); nondet_fill(sc.bytes, sizeof(Inst));
  side = 0; step = 0; ci = 0;
  Inst* o = new (&so.obj) Inst;
  Inst* c = 0;
  unsigned char snap[sizeof(Inst)];
  for (int s = 0; s <= KSTEPS; ++s) {
    if (s == cp) {
      c = new (&sc.obj) Inst(*o);                             // copy construction runs no callbacks
      // observationally equal at the moment of copying
      vassert(c->activeStateId() == o->activeStateId(), 1710);
      vassert(c->previousTransition().destination == o->previousTransition().destination && c->previousTransition().origin == o->previousTransition().origin, 1711);
#if PAYLOAD
      vassert((c->previousTransition().payload() != 0) == (o->previousTransition().payload() != 0), 1711);
      if (c->previousTransition().payload() && o->previousTransition().payload()) vassert(c->previousTransition().payload()->v == o->previousTransition().payload()->v, 1711);
#endif
#if MANUAL
      vassert(c->isActive() == o->isActive(), 1710);
#endif
      { auto po = o->plan(); auto pc = c->plan(); auto io = po.begin(); auto ic = pc.begin(); int n = 0; bool eq = true;
        for (; n <= CAP; ++n) { bool a = bool(io), b = bool(ic); if (a != b) eq = false; if (!a || !b) break;
          if (io->origin != ic->origin || io->destination != ic->destination) eq = false; ++io; ++ic; }
        vassert(eq, 1712); }
      { Inst::SerialBuffer bo, bc; nondet_fill(&bo, sizeof bo); nondet_fill(&bc, sizeof bc); const Inst& co = *o; const Inst& cc = *c; co.save(bo); cc.save(bc); vassert(bo == bc, 1713); }
      snapshot(*c, snap);
    }
    if (s < KSTEPS) { step = s + 1; ci = 0; one_step(*o); }
  }
  vassert(c != 0, 1714);
  vassert(same_bytes(*c, snap), 1715);                        // driving the original left the copy untouched
  snapshot(*o, snap);
  side = 1;
  for (int s = 0; s < KSTEPS; ++s) if (s >= cp) { step = s + 1; ci = 0; one_step(*c); }
  vassert(same_bytes(*o, snap), 1716);                        // and vice versa
  for (int s = 0; s < KSTEPS; ++s) if (s >= cp) {
    vassert(ti[0][s + 1] == ti[1][s + 1], 1717);              // same callbacks and results for the same inputs
    vassert(vmem_equal(tr[0][s + 1], tr[1][s + 1], NTR), 1718);     // (unused trace slots are zero on both sides)
  }
  vwitness(9001);
  step = KSTEPS + 1;
  c->~Inst(); o->~Inst();
  return 0;
}
#endif

"""Developer helper: run one job, print failing assertion ids, fetch a trace for the first one and replay it natively."""
import sys, json, os
sys.path.insert(0, os.path.dirname(os.path.abspath(__file__)))
import engine

def explain(job, work, want=None, show=True):
    os.makedirs(work, exist_ok=True)
    r = engine.run_job(job, work)
    fails = {k: v for k, v in r['props'].items() if v['res'] != 'SUCCESS'}
    print('status', r['status'], 'solver_s %.1f' % r['solver_s'], 'rss', r['peak_rss_mb'], 'queries', r['queries'], 'validated', r['validated_streams'])
    print('notes', r['notes'])
    print('witnesses', r['witnesses'])
    print('unwinding_failed', [(u['prop']) for u in r['unwinding_failed']])
    print('ub_failed', [(u['prop'], u['desc']) for u in r['ub_failed']][:20])
    print('FAILED ids:', sorted(fails, key=lambda x: (len(x), x)))
    if fails and show:
        k = want if want in fails else sorted(fails, key=lambda x: (len(x), x))[0]
        v = fails[k]
        cmd = r['cmds'][v['variant']]
        draws, out, dt = engine.trace_for(cmd, v['prop'], 900, 16)
        print('trace for', k, v['prop'], 'draws', draws, 'in %.1fs' % dt)
        variants, _ = engine.header_variants(work)
        inc = dict(variants)[v['variant']]
        outs, err = engine.native_replay(job, work, inc, draws, 'dbg')
        print(err or '\n'.join('%s rc=%s %s' % o for o in outs))
    return r

if __name__ == '__main__':
    pass

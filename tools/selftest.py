#!/usr/bin/python3
"""Self-test of the checks: apply each corpus mutation (selftest/mutations.py, selftest/revert-F*.diff) to /repo, run the
checks expected to report it, require exit 1, undo.  usage: tools/selftest.py [name-substring ...]
Results are written to selftest/results.json (name -> {property -> rc}); nothing is ever committed to /repo."""
import os, sys, json, subprocess, tempfile, shutil, time, importlib.util
HERE = os.path.dirname(os.path.dirname(os.path.abspath(__file__)))
REPO = '/repo'
def sh(cmd, cwd=None, timeout=4 * 3600):
    p = subprocess.run(cmd, shell=True, cwd=cwd, stdout=subprocess.PIPE, stderr=subprocess.STDOUT, timeout=timeout)
    return p.returncode, p.stdout.decode('utf-8', 'replace')
spec = importlib.util.spec_from_file_location('mutations', os.path.join(HERE, 'selftest', 'mutations.py')); M = importlib.util.module_from_spec(spec); spec.loader.exec_module(M)
REVERTS = {'revert-F1': ['C03', 'C02', 'C11', 'C04'], 'revert-F2': ['C06', 'C08'], 'revert-F3': ['C17'], 'revert-F4': ['C20'], 'revert-F5': ['C18'],
           'revert-F6': ['C09', 'C17'], 'revert-F7': ['C19'], 'revert-F8': ['C20'], 'revert-F9': []}

def make_patch(name, rel, old, new, header_only=False):
    wt = tempfile.mkdtemp(prefix='selftest-wt-', dir='/tmp')
    try:
        sh('git -C %s worktree add -f %s HEAD' % (REPO, wt))
        path = os.path.join(wt, rel if header_only else os.path.join('development/ffsm2', rel))
        s = open(path, encoding='utf-8').read()
        if s.count(old) != 1: return None, 'old text occurs %d times in %s' % (s.count(old), rel)
        open(path, 'w', encoding='utf-8').write(s.replace(old, new))
        if not header_only: sh('python3 join.py', cwd=os.path.join(wt, 'tools'))
        rc, diff = sh('git -C %s diff' % wt)
        pf = os.path.join(HERE, 'out', 'selftest-%s.diff' % name); os.makedirs(os.path.dirname(pf), exist_ok=True); open(pf, 'w').write(diff)
        rcb, ob = sh('cmake -S . -B _build -G Ninja >/dev/null && cmake --build _build 2>&1 | tail -4', cwd=wt)
        suite = 'Status: SUCCESS' in ob
        return pf, suite
    finally:
        sh('git -C %s worktree remove --force %s' % (REPO, wt)); shutil.rmtree(wt, ignore_errors=True)

def run_against(patch, props):
    out = {}
    rc, o = sh('git -C %s status --porcelain --untracked-files=no' % REPO)
    assert not o.strip(), '/repo not clean'
    rc, o = sh('git -C %s apply %s' % (REPO, patch))
    if rc: return {'apply': o[-300:]}
    try:
        for p in props:
            t0 = time.time(); rc, o = sh('./check %s --tier quick' % p, cwd=HERE)
            viol = [l for l in o.split('\n') if l.startswith('  violated')][:2]
            out[p] = dict(rc=rc, wall_s=round(time.time() - t0), first=[v[:200] for v in viol])
    finally:
        sh('git -C %s checkout -- .' % REPO)
    return out

def main():
    filt = sys.argv[1:]
    resf = os.path.join(HERE, 'selftest', 'results.json')
    results = json.load(open(resf)) if os.path.exists(resf) else {}
    items = []
    for name, props in REVERTS.items(): items.append((name, os.path.join(HERE, 'selftest', name + '.diff'), None, props))
    for (name, rel, old, new, props) in M.MUTATIONS: items.append((name, None, (rel, old, new, False), props))
    for (name, rel, old, new, props) in M.HEADER_ONLY: items.append((name, None, (rel, old, new, True), props))
    for name, patch, spec_, props in items:
        if filt and not any(f in name for f in filt): continue
        suite = None
        if patch is None:
            patch, suite = make_patch(name, *spec_[:3], header_only=spec_[3])
            if patch is None: print('%-44s SKIPPED: %s' % (name, suite)); results[name] = dict(error=suite); continue
        if not props: print('%-44s (no expected property; suite_passes=%s)' % (name, suite)); results[name] = dict(suite_passes=suite, checks={}); continue
        r = run_against(patch, props)
        results[name] = dict(suite_passes=suite, checks=r)
        print('%-44s suite_passes=%-5s %s' % (name, suite, '  '.join('%s:rc=%s' % (p, v.get('rc') if isinstance(v, dict) else v) for p, v in r.items())), flush=True)
        json.dump(results, open(resf, 'w'), indent=1)
    json.dump(results, open(resf, 'w'), indent=1)

if __name__ == '__main__':
    main()

// C16 harness: logging is faithful and does not perturb the machine.
//   ROLE 0  faithfulness (single module): a recording logger behind the real virtual interface; every callback
//           the state classes define checks "exactly one unconsumed method record (my id, my method) precedes me".
//   ROLE 1  non-perturbation (product scenario, see rt/product_rt.c): the same choice stream drives a build
//           without the log interface and a build with it (logger attached from construction / attached at a
//           symbolic step / detached at a symbolic step / never); callback traces and observers must be equal.
// LOGMODE: 0 no log interface compiled, 1 FFSM2_ENABLE_LOG_INTERFACE, 2 FFSM2_ENABLE_VERBOSE_DEBUG_LOG.
#ifndef FFSM2_DISABLE_TYPEINDEX
#define FFSM2_DISABLE_TYPEINDEX
#endif
#ifndef LOGMODE
#define LOGMODE 1
#endif
#if LOGMODE == 1
#define FFSM2_ENABLE_LOG_INTERFACE
#elif LOGMODE == 2
#define FFSM2_ENABLE_VERBOSE_DEBUG_LOG
#endif
#define FFSM2_ENABLE_PLANS
#include "vrt.h"
#include <ffsm2/machine.hpp>
#ifndef ROLE
#define ROLE 0
#endif
#ifndef KSTEPS
#define KSTEPS 2
#endif
#ifndef HEAD
#define HEAD 1
#endif
#define VCAT2(a, b) a##b
#define VCAT(a, b) VCAT2(a, b)
#ifndef VERIF_PREFIX
#define VERIF_PREFIX
#endif
extern "C" { void pr_step(unsigned s); unsigned char pr_draw(void); unsigned char pr_below(unsigned char n); void pr_rec(unsigned e); unsigned pr_side(void); }

#ifndef LIMIT
#define LIMIT 2
#endif
#ifndef MANUAL
#define MANUAL 0      // 1: manual activation; the steps include exit() and re-activation (the attachment outlives both)
#endif
#if MANUAL
using M = ffsm2::MachineT<ffsm2::Config::TaskCapacityN<2>::SubstitutionLimitN<LIMIT>::ManualActivation>;
#else
using M = ffsm2::MachineT<ffsm2::Config::TaskCapacityN<2>::SubstitutionLimitN<LIMIT>>;
#endif
struct SA; struct SB; struct SC; struct Rt;
#if HEAD
using FSM = M::Root<Rt, SA, SB, SC>;
#else
using FSM = M::PeerRoot<SA, SB, SC>;
#endif
typedef FSM::Instance Inst;
typedef ffsm2::Method Method;
static const int INV = 255;

#if ROLE == 0
static unsigned char draw() { return nondet_u8(); }
static unsigned char below(unsigned char n) { return nondet_below(n); }
#else
static unsigned char draw() { return pr_draw(); }
static unsigned char below(unsigned char n) { return pr_below(n); }
#endif

// which (state, method) pairs the state classes below define.  SA (id 0): everything; SB (id 1): nothing; SC (id 2, declared with an injected base Mix): enter, update, exitGuard, entryGuard;
// Rt (id 255): update, planSucceeded, planFailed
static bool defines(int id, Method m) {
  if (id == 0) return m != Method::PLAN_SUCCEEDED && m != Method::PLAN_FAILED && m != Method::NONE && m != Method::COUNT;
  if (id == 2) return m == Method::ENTER || m == Method::UPDATE || m == Method::EXIT_GUARD || m == Method::ENTRY_GUARD;
  if (id == INV) return HEAD && (m == Method::UPDATE || m == Method::PLAN_SUCCEEDED || m == Method::PLAN_FAILED);
  return false;
}

// ------------------------------------------------------------------------------------------ recording logger
static bool attached;                           // a logger is attached to the machine right now
static bool pend; static int pend_id; static Method pend_m;      // unconsumed method record
static int  n_method_records;
static bool exp_tr; static int exp_tr_o, exp_tr_d;               // a changeTo()/changeWith() call is in progress
static bool exp_cancel; static int exp_cancel_o;
static bool exp_status; static int exp_status_o; static int exp_status_e;
static bool plan_step;                                            // the machine may fire plan tasks itself right now
static int  task_o = -1, task_d = -1;                             // the one task the harness keeps in the plan
static int  active_at_call = -1;

#if LOGMODE != 0
struct Logger : M::LoggerInterface {
  void recordMethod(const Context&, const StateID origin, const Method method) override {
    vrec(100 + (unsigned)method, origin);
#if ROLE == 0
    vassert(attached, 1600);
    if (pend) vassert(!defines(pend_id, pend_m), 1601);           // the previous record was consumed by its callback (or had none)
    // the record names a state this delivery can really go to
    if (method == Method::PRE_UPDATE || method == Method::UPDATE || method == Method::POST_UPDATE || method == Method::PRE_REACT ||
        method == Method::REACT || method == Method::POST_REACT || method == Method::QUERY || method == Method::EXIT_GUARD)
      vassert(origin == INV || origin == active_at_call, 1606);
    vassert(origin == INV || origin < 3, 1607);
    pend = true; pend_id = origin; pend_m = method; n_method_records++;
#else
    (void)origin; (void)method;
#endif
  }
  void recordTransition(const Context&, const StateID origin, const StateID target) override {
#if ROLE == 0
    if (exp_tr) { vassert(origin == exp_tr_o && target == exp_tr_d, 1611); exp_tr = false; }   // caller as origin, requested destination
    else { vassert(plan_step && origin == task_o && target == task_d, 1616); }                    // or a plan task firing
#else
    (void)origin; (void)target;
#endif
  }
  void recordTaskStatus(const Context&, const StateID origin, const StatusEvent event) override {
#if ROLE == 0
    vassert(exp_status && origin == exp_status_o && int(event) == exp_status_e, 1615); exp_status = false;
#else
    (void)origin; (void)event;
#endif
  }
  void recordCancelledPending(const Context&, const StateID origin) override {
#if ROLE == 0
    vassert(exp_cancel && origin == exp_cancel_o, 1613); exp_cancel = false;
#else
    (void)origin;
#endif
  }
};
#endif

// a callback the state class defines has been entered: its method record must immediately precede it
static void deliver(int id, Method m) {
  vrec(200 + (unsigned)m, id);
#if ROLE == 0
  if (attached) { vassert(pend && pend_id == id && pend_m == m, 1602); pend = false; }
#else
  pr_rec(16 * (unsigned)m + (id == INV ? 15 : id));
#endif
  (void)id; (void)m;
}

template <typename TC> static void request(TC& c, int id) {
  unsigned char k = draw();
  if ((k & 3) == 1) { int d = below(3);
#if ROLE == 0
    exp_tr = attached; exp_tr_o = id; exp_tr_d = d;
#endif
    c.changeTo(d);
#if ROLE == 0
    vassert(!exp_tr, 1610);                                       // exactly one transition record per changeTo
#endif
  } else if ((k & 3) == 2 && id != INV) {
#if ROLE == 0
    exp_status = attached; exp_status_o = id; exp_status_e = (k & 4) ? int(ffsm2::StatusEvent::SUCCEEDED) : int(ffsm2::StatusEvent::FAILED);
#endif
    if (k & 4) c.succeed(); else c.fail();
#if ROLE == 0
    vassert(!exp_status, 1614);                                   // exactly one task-status record per succeed/fail
#endif
  }
}
template <typename TG> static void guard(TG& c, int id) {
  unsigned char k = draw();
  if (k & 1) {
#if ROLE == 0
    exp_cancel = attached; exp_cancel_o = id;
#endif
    c.cancelPendingTransition();
#if ROLE == 0
    vassert(!exp_cancel, 1612);                                   // exactly one cancellation record per cancellation
#endif
  }
  if (k & 2) request(c, id);
}

struct SB : FSM::State {};
struct SA : FSM::State {
  void entryGuard(GuardControl& c) { deliver(0, Method::ENTRY_GUARD); guard(c, 0); }
  void enter(PlanControl&) { deliver(0, Method::ENTER); }
  void reenter(PlanControl&) { deliver(0, Method::REENTER); }
  void preUpdate(FullControl& c) { deliver(0, Method::PRE_UPDATE); request(c, 0); }
  void update(FullControl& c) { deliver(0, Method::UPDATE); request(c, 0); }
  void postUpdate(FullControl& c) { deliver(0, Method::POST_UPDATE); request(c, 0); }
  void preReact(const int&, FullControl& c) { deliver(0, Method::PRE_REACT); request(c, 0); }
  void react(const int&, FullControl& c) { deliver(0, Method::REACT); request(c, 0); }
  void postReact(const int&, FullControl& c) { deliver(0, Method::POST_REACT); request(c, 0); }
  void query(int&, ConstControl&) const { deliver(0, Method::QUERY); }
  void exitGuard(GuardControl& c) { deliver(0, Method::EXIT_GUARD); guard(c, 0); }
  void exit(PlanControl&) { deliver(0, Method::EXIT); }
};
// user code of an INJECTED base: the method record of the delivery must already be there, and stays for the state's own callback
static void deliver_injected(int id, Method m) {
  vrec(300 + (unsigned)m, id);
#if ROLE == 0
  if (attached) vassert(pend && pend_id == id && pend_m == m, 1618);      // emitted before ANY user code of that delivery runs
#else
  pr_rec(0xC0 + ((unsigned)m & 15));
#endif
  (void)id; (void)m;
}
struct Mix : FSM::State {
  void entryGuard(GuardControl& c) { deliver_injected(2, Method::ENTRY_GUARD); guard(c, 2); }
  void exitGuard(GuardControl& c) { deliver_injected(2, Method::EXIT_GUARD); guard(c, 2); }
  void update(FullControl&) { deliver_injected(2, Method::UPDATE); }
};
struct SC : FSM::StateT<Mix> {
  void entryGuard(GuardControl&) { deliver(2, Method::ENTRY_GUARD); }
  void enter(PlanControl&) { deliver(2, Method::ENTER); }
  void update(FullControl& c) { deliver(2, Method::UPDATE); request(c, 2); }
  void exitGuard(GuardControl& c) { deliver(2, Method::EXIT_GUARD); guard(c, 2); }
};
struct Rt : FSM::State {
  void update(FullControl& c) { deliver(INV, Method::UPDATE); request(c, INV); }
  void planSucceeded(FullControl&) { deliver(INV, Method::PLAN_SUCCEEDED); }
  void planFailed(FullControl&) { deliver(INV, Method::PLAN_FAILED); }
};

static void end_call() {
#if ROLE == 0
  if (pend) vassert(!defines(pend_id, pend_m), 1604);             // no record of a defining state is left unconsumed
  vassert(!exp_tr && !exp_cancel && !exp_status, 1617);
  pend = false;
#endif
}

#if ROLE == 0
extern "C" int harness(void)
#else
extern "C" void VCAT(VERIF_PREFIX, scenario)(void)
#endif
{
#if LOGMODE != 0
  Logger lg;
#endif
  // attach schedule: 0 from construction, 1 attached before step `at`, 2 detached before step `at`, 3 never
  unsigned char sched = draw() & 3, at = below(KSTEPS + 1);
#if LOGMODE != 0
  attached = (sched == 0 || sched == 2);
  Inst m{attached ? &lg : 0};
#else
  Inst m;
#endif
  active_at_call = -1;
#if MANUAL
  end_call();
  m.enter();
#endif
  end_call();
#if ROLE == 1
  pr_rec(0x80 + m.activeStateId());
#endif
  for (int s = 0; s < KSTEPS; ++s) {
#if ROLE == 1
    pr_step(s + 1);
#endif
#if LOGMODE != 0
    if (s == at && sched == 1) { m.attachLogger(&lg); attached = true; }
    if (s == at && sched == 2) { m.attachLogger(0); attached = false; }
#endif
    unsigned char op = draw();
    active_at_call = m.activeStateId(); n_method_records = 0;
#if MANUAL
    if (!m.isActive()) m.enter();
    else if (op == 7) m.exit();
    else
#endif
    if (op == 0) { plan_step = true; m.update(); plan_step = false;
#if ROLE == 0
      if (attached && LOGMODE == 2 && s != at) vassert(n_method_records >= 6, 1608);   // verbose: one record per delivery (root and state, three phases), defined or not
#endif
    }
    else if (op == 1) { int ev = 1; plan_step = true; m.react(ev); plan_step = false; }
    else if (op == 2) { int ev = 1; const Inst& cm = m; cm.query(ev);
#if ROLE == 0
      if (attached && LOGMODE == 2) vassert(n_method_records == 2, 1608);
      if (attached && LOGMODE == 1) vassert(n_method_records >= (defines(active_at_call, Method::QUERY) ? 1 : 0) && n_method_records <= 2, 1609);
#endif
    }
    else if (op == 3) { int d = below(3);
#if ROLE == 0
      exp_tr = attached; exp_tr_o = INV; exp_tr_d = d;
#endif
      m.changeTo(d);
#if ROLE == 0
      vassert(!exp_tr, 1610);
#endif
    }
    else if (op == 4) { int d = below(3);
#if ROLE == 0
      exp_tr = attached; exp_tr_o = INV; exp_tr_d = d;
#endif
      m.immediateChangeTo(d); }
    else if (op == 5) { int o = below(3), d = below(3); m.plan().clear(); if (m.plan().change(o, d)) { task_o = o; task_d = d; } }
    else if (op == 6) { int o = below(3);
#if ROLE == 0
      exp_status = attached; exp_status_o = o; exp_status_e = int(ffsm2::StatusEvent::SUCCEEDED);
#endif
      m.succeed(o);
#if ROLE == 0
      vassert(!exp_status, 1614);
#endif
    }
    end_call();
#if ROLE == 1
    pr_rec(0x80 + m.activeStateId());
#endif
  }
#if ROLE == 0
  vwitness(9001);
#else
  pr_step(KSTEPS + 1);
#endif
  active_at_call = m.activeStateId();
#if MANUAL
  if (m.isActive()) { m.exit(); end_call(); }
#endif
#if ROLE == 0
  return 0;
#endif
}

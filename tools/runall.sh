#!/bin/bash
# run every check of the manifest (quick by default) and summarise; usage: tools/runall.sh [quick|thorough]
tier=${1:-quick}
cd "$(dirname "$0")/.."
mkdir -p out/logs
for p in C01 C02 C03 C04 C05 C06 C07 C08 C09 C10 C11 C12 C13 C14 C15 C16 C17 C18 C19 C20; do
  s=$(date +%s)
  ./check $p --tier $tier > out/logs/$p.$tier.log 2>&1; rc=$?
  e=$(date +%s)
  echo "$p rc=$rc $((e-s))s $(tail -1 out/logs/$p.$tier.log)"
done
